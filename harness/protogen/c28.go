//go:build verif

package protogen

// c28Ident: identifier bytes [a-z0-9-] with a leading letter (YANG identifiers as they
// appear in schema paths).
func c28Ident(name string, n int) string {
	s := symStringN(name, n)
	symAssume(symAnd(s[0] >= 'a', s[0] <= 'z'))
	for i := 1; i < n; i++ {
		b := s[i]
		symAssume(symOr(symAnd(b >= 'a', b <= 'z'), symOr(symAnd(b >= '0', b <= '9'), b == '-')))
	}
	return s
}

func c28Len() int {
	if symTier() > 0 {
		return 7
	}
	return 5
}

// H_C28_range: every field number fieldTag hands out is a legal protobuf field number:
// in 1..2^29-1 and outside the reserved range 19000-19999.
//
//gosym:timeout_ms=120000
//gosym:timeout_ms.thorough=600000
//gosym:minutes.thorough=60
func H_C28_range() {
	n := 1 + symChoose("len", c28Len())
	name := c28Ident("name", n)
	tag, err := fieldTag("/m/c/" + name)
	symReach("tagged")
	symAssert(err == nil, "fieldTag fails")
	symAssert(tag >= 1, "field number 0 is not a legal protobuf field number")
	symAssert(tag <= 0x1fffffff, "field number above 2^29-1")
	symAssert(symOr(tag < 19000, tag > 19999), "field number inside the reserved range 19000-19999")
}

// H_C28_distinct: two different sibling leaves get different field numbers.
//
//gosym:timeout_ms=120000
//gosym:timeout_ms.thorough=600000
//gosym:minutes.thorough=60
func H_C28_distinct() {
	n := c28Len()
	if symTier() > 0 {
		n = 7
	}
	x := c28Ident("x", n)
	y := c28Ident("y", n)
	symAssume(x != y)
	symKnown("C28-collision", true)
	tx, err1 := fieldTag("/m/c/" + x)
	ty, err2 := fieldTag("/m/c/" + y)
	symReach("tagged")
	symAssert(symAnd(err1 == nil, err2 == nil), "fieldTag fails")
	symAssert(tx != ty, "two sibling fields of one message get the same field number")
}
