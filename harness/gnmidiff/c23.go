//go:build verif

package gnmidiff

import (
	gpb "github.com/openconfig/gnmi/proto/gnmi"
	"github.com/openconfig/ygot/ygot"
)

type c23Leaf struct {
	elems []*gpb.PathElem
	val   *gpb.TypedValue
}

func c23PathStr(e []*gpb.PathElem) string {
	s, err := ygot.PathToString(c22P(e...))
	symAssume(err == nil)
	return s
}

// c23Notifs renders the leaves as notifications: all in one notification, or one
// notification per leaf with the first path element moved into the prefix.
func c23Notifs(leaves []c23Leaf, split bool) []*gpb.Notification {
	var out []*gpb.Notification
	if !split {
		n := &gpb.Notification{}
		for _, l := range leaves {
			n.Update = append(n.Update, &gpb.Update{Path: c22P(l.elems...), Val: l.val})
		}
		return []*gpb.Notification{n}
	}
	for _, l := range leaves {
		out = append(out, &gpb.Notification{
			Prefix: c22P(l.elems[:1]...),
			Update: []*gpb.Update{{Path: c22P(l.elems[1:]...), Val: l.val}},
		})
	}
	return out
}

// c23Changed returns a value for slot i that differs from the value v the request wrote.
func c23Changed(i int, key string, v *gpb.TypedValue) *gpb.TypedValue {
	if symBool("changeKind") {
		// another encoding kind: never equal to the original JSON-level value
		switch v.Value.(type) {
		case *gpb.TypedValue_StringVal:
			return c22Bool(symBool("x.bool"))
		default:
			return c22Str(symString("x.str", 4))
		}
	}
	n := c22Slot(i, "x.", key).val
	switch o := v.Value.(type) {
	case *gpb.TypedValue_StringVal:
		symAssume(n.GetStringVal() != o.StringVal)
	case *gpb.TypedValue_BoolVal:
		symAssume(n.GetBoolVal() != o.BoolVal)
	case *gpb.TypedValue_IntVal:
		if w, ok := n.Value.(*gpb.TypedValue_IntVal); ok {
			symAssume(w.IntVal != o.IntVal)
		} else {
			symAssume(o.IntVal < 0 || uint64(o.IntVal) != n.GetUintVal())
		}
	case *gpb.TypedValue_UintVal:
		if w, ok := n.Value.(*gpb.TypedValue_UintVal); ok {
			symAssume(w.UintVal != o.UintVal)
		} else {
			symAssume(n.GetIntVal() < 0 || uint64(n.GetIntVal()) != o.UintVal)
		}
	case *gpb.TypedValue_LeaflistVal:
		a, b := o.LeaflistVal.Element, n.GetLeaflistVal().GetElement()
		same := len(a) == len(b)
		for j := 0; same && j < len(a); j++ {
			same = a[j].GetStringVal() == b[j].GetStringVal()
		}
		symAssume(!same)
	}
	return n
}

// H_C23_edits: notifications that carry exactly the leaves the request writes give an
// empty diff (all common); removing, changing or adding (under a deleted or replaced
// subtree) one leaf reports that leaf, and only that leaf, as missing, mismatched or
// extra (schema-less arm).
//
//gosym:maxpaths=400000
func H_C23_edits() {
	key := c22Key("k", 1+symTier())
	req := &gpb.SetRequest{}
	var leaves []c23Leaf
	var slots []int
	for i := 0; i < c22Slots()-1; i++ { // quick: 3 leaf slots; thorough: 4
		if symBool("has") {
			l := c22Slot(i, "r.", key)
			req.Update = append(req.Update, &gpb.Update{Path: c22P(l.elems...), Val: l.val})
			leaves = append(leaves, c23Leaf{l.elems, l.val})
			slots = append(slots, i)
		}
	}
	// subtrees removed by the request: any of the three delete targets and one JSON replace
	var removed [][]*gpb.PathElem
	for d := 0; d < 4; d++ { // 3 = the root (conflicts with any other delete: those requests are rejected)
		if symBool("del") {
			st := c22Subtree(d, key)
			req.Delete = append(req.Delete, c22P(st...))
			removed = append(removed, st)
		}
	}
	if symBool("replace") {
		st := []*gpb.PathElem{c22E("system"), c22E("aaa")}
		req.Replace = append(req.Replace, &gpb.Update{Path: c22P(st...), Val: c22JSON(`{"config":{"method":"local"}}`)})
		removed = append(removed, st)
		leaves = append(leaves, c23Leaf{append(st[:2:2], c22E("config"), c22E("method")), c22Str("local")})
		slots = append(slots, -1)
	}
	split := symBool("split")
	edit := symChoose("edit", 4)
	carried := append([]c23Leaf(nil), leaves...)
	var edited string
	switch edit {
	case 1: // one leaf removed
		if len(leaves) == 0 {
			return
		}
		i := symChoose("which", len(leaves))
		edited = c23PathStr(leaves[i].elems)
		carried = append(carried[:i:i], carried[i+1:]...)
	case 2: // one leaf changed
		if len(leaves) == 0 {
			return
		}
		i := symChoose("which", len(leaves))
		edited = c23PathStr(leaves[i].elems)
		if slots[i] < 0 {
			carried[i] = c23Leaf{leaves[i].elems, c22Str(symString("x.method", 5))}
			symAssume(carried[i].val.GetStringVal() != "local")
		} else {
			carried[i] = c23Leaf{leaves[i].elems, c23Changed(slots[i], key, leaves[i].val)}
		}
	case 3: // one leaf added under a deleted or replaced subtree
		if len(removed) == 0 {
			return
		}
		st := removed[symChoose("under", len(removed))]
		extra := append(st[:len(st):len(st)], c22E("config"), c22E("extra-leaf"))
		edited = c23PathStr(extra)
		carried = append(carried, c23Leaf{extra, c22Str(symString("x.extra", 1))})
	}
	d, err := DiffSetRequestToNotifications(req, c23Notifs(carried, split), nil)
	symReach("diffed")
	if err != nil {
		return
	}
	symReach("no error")
	nMissing, nMismatched, nExtra := 0, 0, 0
	switch edit {
	case 1:
		nMissing = 1
		_, ok := d.MissingUpdates[edited]
		symAssert(ok, "the removed leaf must be reported as missing")
	case 2:
		nMismatched = 1
		_, ok := d.MismatchedUpdates[edited]
		symAssert(ok, "the changed leaf must be reported as mismatched")
	case 3:
		nExtra = 1
		_, ok := d.ExtraUpdates[edited]
		symAssert(ok, "the leaf added under a deleted or replaced subtree must be reported as extra")
	}
	symAssert(len(d.MissingUpdates) == nMissing, "no other leaf may be reported as missing")
	symAssert(len(d.MismatchedUpdates) == nMismatched, "no other leaf may be reported as mismatched")
	symAssert(len(d.ExtraUpdates) == nExtra, "no other leaf may be reported as extra")
	symAssert(len(d.CommonUpdates) == len(leaves)-nMissing-nMismatched, "every untouched leaf is common")
}
