//go:build verif

package gnmidiff

import (
	gpb "github.com/openconfig/gnmi/proto/gnmi"
)

// No assertion beyond "the call returned": an escaping panic is the violation (C20).

var c20dDocs = []string{`{}`, `[]`, `"x"`, `1`, `null`, `true`, `{`, ``, `[1,"a"]`, `[[1]]`, `[{"a":1},2]`, `[{"name":"a","config":{"name":"a"}}]`,
	`{"a":null}`, `{"a":[{"k":[1]}]}`, `{"a":[{"k":{"x":1}}]}`, `{"a":[null]}`, `{"m:a":{"b":1}}`, `{"a":[{"k":1.5},{"k":true}]}`, `{"tags":[]}`, `{"tags":["a","a"]}`}

func c20dValue(tag string, depth int) *gpb.TypedValue {
	if depth < 0 {
		return []*gpb.TypedValue{nil, {}, c22Str("x")}[symChoose(tag+"more", 3)]
	}
	kinds := 13
	if depth > 0 {
		kinds = 14
	}
	switch symChoose(tag+"kind", kinds) {
	case 0:
		return nil
	case 1:
		return &gpb.TypedValue{}
	case 2:
		return c22Str(symString(tag+"s", 1))
	case 3:
		return c22Int(symInt64(tag + "i"))
	case 4:
		return c22Uint(symUint64(tag + "u"))
	case 5:
		return c22Bool(symBool(tag + "b"))
	case 6:
		return &gpb.TypedValue{Value: &gpb.TypedValue_BytesVal{BytesVal: symBytes(tag+"bytes", 1)}}
	case 7:
		return &gpb.TypedValue{Value: &gpb.TypedValue_DoubleVal{DoubleVal: []float64{1.5, 1e300, -0.0}[symChoose(tag+"dbl", 3)]}}
	case 8:
		return &gpb.TypedValue{Value: &gpb.TypedValue_FloatVal{FloatVal: 1.5}}
	case 9:
		return &gpb.TypedValue{Value: &gpb.TypedValue_DecimalVal{}}
	case 10:
		return c22JSON(c20dDocs[symChoose(tag+"doc", len(c20dDocs))])
	case 11:
		return &gpb.TypedValue{Value: &gpb.TypedValue_JsonVal{JsonVal: []byte(`{"a":1}`)}}
	case 12:
		if symBool(tag + "ascii") {
			return &gpb.TypedValue{Value: &gpb.TypedValue_AsciiVal{AsciiVal: "x"}}
		}
		return &gpb.TypedValue{Value: &gpb.TypedValue_AnyVal{}}
	}
	var ll *gpb.ScalarArray
	if !symBool(tag + "nilArray") {
		ll = &gpb.ScalarArray{}
		n := symChoose(tag+"len", 3)
		for i := 0; i < n; i++ {
			d := depth - 1
			if i > 0 {
				d = -1
			}
			ll.Element = append(ll.Element, c20dValue(tag+"e.", d))
		}
	}
	return &gpb.TypedValue{Value: &gpb.TypedValue_LeaflistVal{LeaflistVal: ll}}
}

func c20dPath(tag string) *gpb.Path {
	switch symChoose(tag+"path", 7) {
	case 0:
		return nil
	case 1:
		return &gpb.Path{}
	case 2:
		return c22P(c22E("a"))
	case 3:
		return c22P(c22E("a"), c22E("b", "k", symString(tag+"k", 1)))
	case 4:
		return c22P(c22E("")) // empty element name
	case 5:
		return c22P(c22E("a", "", "v")) // empty key name
	}
	return &gpb.Path{Origin: "o", Target: "t", Elem: []*gpb.PathElem{c22E("a"), c22E("tags")}, Element: []string{"legacy"}}
}

// c20dRequest: nil, or a request with unset/odd prefix and one arbitrary entry among
// delete/replace/update optionally followed by an update of /a/tags (leaf-list) so
// that repeated and conflicting writes occur.
func c20dRequest(tag string) *gpb.SetRequest {
	if symBool(tag + "nil") {
		return nil
	}
	req := &gpb.SetRequest{}
	switch symChoose(tag+"prefix", 3) {
	case 1:
		req.Prefix = c22P(c22E("p"))
	case 2:
		req.Prefix = c22P(c22E(""))
	}
	switch symChoose(tag+"entry", 4) {
	case 1:
		req.Delete = append(req.Delete, c20dPath(tag+"d."))
	case 2:
		req.Replace = append(req.Replace, &gpb.Update{Path: c20dPath(tag + "r."), Val: c20dValue(tag+"r.", 1)})
	case 3:
		req.Update = append(req.Update, &gpb.Update{Path: c20dPath(tag + "u."), Val: c20dValue(tag+"u.", 1)})
	}
	switch symChoose(tag+"second", 3) {
	case 1:
		req.Update = append(req.Update, &gpb.Update{Path: c22P(c22E("a"), c22E("tags")), Val: c22LL("x")})
	case 2:
		req.Update = append(req.Update, &gpb.Update{Path: c22P(c22E("a")), Val: c22JSON(`{"tags":["x"]}`)})
	}
	return req
}

// H_C20_diffsetrequest: DiffSetRequest with arbitrary requests (schema-less arm).
//
//gosym:maxpaths=400000
func H_C20_diffsetrequest() {
	a := c20dRequest("a.")
	var b *gpb.SetRequest
	if symBool("same") {
		b = a
	} else if symBool("simple") {
		b = &gpb.SetRequest{Update: []*gpb.Update{{Path: c22P(c22E("a"), c22E("tags")), Val: c22LL("x")}}}
	}
	_, _ = DiffSetRequest(a, b, nil)
	symReach("returned")
}

// H_C20_diffnotifications: DiffSetRequestToNotifications with arbitrary requests and
// notifications (schema-less arm).
//
//gosym:maxpaths=400000
func H_C20_diffnotifications() {
	req := &gpb.SetRequest{
		Delete: []*gpb.Path{c22P(c22E("a"))},
		Update: []*gpb.Update{{Path: c22P(c22E("a"), c22E("tags")), Val: c22LL("x")}},
	}
	var ns []*gpb.Notification
	if symBool("arbitraryRequest") {
		// an arbitrary request against one fixed notification
		req = c20dRequest("q.")
		ns = []*gpb.Notification{{Update: []*gpb.Update{{Path: c22P(c22E("a"), c22E("tags")), Val: c22LL("x")}}}}
	} else if !symBool("noNotifications") {
		n := &gpb.Notification{}
		switch symChoose("prefix", 3) {
		case 1:
			n.Prefix = c22P(c22E("a"))
		case 2:
			n.Prefix = c22P(c22E(""))
		}
		switch symChoose("entry", 3) {
		case 1:
			n.Update = append(n.Update, &gpb.Update{Path: c20dPath("n."), Val: c20dValue("n.", 1)})
		case 2:
			n.Delete = append(n.Delete, c20dPath("nd."))
		}
		if symBool("second") {
			n.Update = append(n.Update, &gpb.Update{Path: c22P(c22E("a"), c22E("tags")), Val: c22LL("x")})
		}
		ns = append(ns, n)
	}
	_, _ = DiffSetRequestToNotifications(req, ns, nil)
	symReach("returned")
}
