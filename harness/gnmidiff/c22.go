//go:build verif

package gnmidiff

import (
	"reflect"
	"unicode/utf8"

	gpb "github.com/openconfig/gnmi/proto/gnmi"
)

func c22E(name string, kv ...string) *gpb.PathElem {
	e := &gpb.PathElem{Name: name}
	for i := 0; i+1 < len(kv); i += 2 {
		if e.Key == nil {
			e.Key = map[string]string{}
		}
		e.Key[kv[i]] = kv[i+1]
	}
	return e
}

func c22P(e ...*gpb.PathElem) *gpb.Path { return &gpb.Path{Elem: e} }

func c22Str(s string) *gpb.TypedValue {
	return &gpb.TypedValue{Value: &gpb.TypedValue_StringVal{StringVal: s}}
}
func c22Uint(u uint64) *gpb.TypedValue {
	return &gpb.TypedValue{Value: &gpb.TypedValue_UintVal{UintVal: u}}
}
func c22Int(u int64) *gpb.TypedValue {
	return &gpb.TypedValue{Value: &gpb.TypedValue_IntVal{IntVal: u}}
}
func c22Bool(b bool) *gpb.TypedValue {
	return &gpb.TypedValue{Value: &gpb.TypedValue_BoolVal{BoolVal: b}}
}
func c22JSON(s string) *gpb.TypedValue {
	return &gpb.TypedValue{Value: &gpb.TypedValue_JsonIetfVal{JsonIetfVal: []byte(s)}}
}
func c22LL(ss ...string) *gpb.TypedValue {
	ll := &gpb.ScalarArray{}
	for _, s := range ss {
		ll.Element = append(ll.Element, c22Str(s))
	}
	return &gpb.TypedValue{Value: &gpb.TypedValue_LeaflistVal{LeaflistVal: ll}}
}

// c22Key: a symbolic list key value: 1..2 bytes of valid UTF-8 (includes the bytes
// that need escaping in a path string: ']', '\\', '=', '/', '[').
func c22Key(name string, max int) string {
	k := symString(name, max)
	symAssume(len(k) > 0 && utf8.ValidString(k))
	return k
}

// c22Leaf is one leaf of the schema-less (OpenConfig style) vocabulary.
type c22Leaf struct {
	elems []*gpb.PathElem
	val   *gpb.TypedValue
}

// c22Slot returns leaf number i of the vocabulary with a fresh symbolic value.
func c22Slot(i int, tag string, key string) c22Leaf {
	ifc := []*gpb.PathElem{c22E("interfaces"), c22E("interface", "name", key)}
	switch i {
	case 0:
		if symBool(tag + "mtuSigned") {
			return c22Leaf{append(ifc, c22E("config"), c22E("mtu")), c22Int(int64(symInt16(tag + "mtuI")))}
		}
		return c22Leaf{append(ifc, c22E("config"), c22E("mtu")), c22Uint(uint64(symUint16(tag + "mtuU")))}
	case 1:
		return c22Leaf{append(ifc, c22E("config"), c22E("description")), c22Str(symString(tag+"descr", 2))}
	case 2:
		return c22Leaf{[]*gpb.PathElem{c22E("system"), c22E("ntp"), c22E("config"), c22E("enabled")}, c22Bool(symBool(tag + "ntpEnabled"))}
	case 3:
		n := symChoose(tag+"nTags", 3)
		var ss []string
		for j := 0; j < n; j++ {
			ss = append(ss, symString(tag+"tag", 1))
		}
		return c22Leaf{[]*gpb.PathElem{c22E("system"), c22E("config"), c22E("tags")}, c22LL(ss...)}
	case 4:
		return c22Leaf{[]*gpb.PathElem{c22E("system"), c22E("ntp-keys"), c22E("config"), c22E("id")}, c22Str(symString(tag+"keyid", 1))}
	}
	return c22Leaf{[]*gpb.PathElem{c22E("system"), c22E("config"), c22E("hostname")}, c22Str(symString(tag+"hostname", 2))}
}

// c22Subtree returns delete/replace target i.
func c22Subtree(i int, key string) []*gpb.PathElem {
	switch i {
	case 0:
		return []*gpb.PathElem{c22E("system"), c22E("ntp")}
	case 1:
		return []*gpb.PathElem{c22E("system"), c22E("ntp-keys")}
	case 3:
		return []*gpb.PathElem{} // the root
	}
	return []*gpb.PathElem{c22E("interfaces"), c22E("interface", "name", key)}
}

// c22Request: updates = the slots selected by mask (bits 0..nSlots-1), at most one
// delete of a subtree.
func c22Request(tag string, nSlots int, key string) *gpb.SetRequest {
	req := &gpb.SetRequest{}
	for i := 0; i < nSlots; i++ {
		if symBool(tag + "has") {
			l := c22Slot(i, tag, key)
			req.Update = append(req.Update, &gpb.Update{Path: c22P(l.elems...), Val: l.val})
		}
	}
	if d := symChoose(tag+"del", 4); d > 0 {
		req.Delete = append(req.Delete, c22P(c22Subtree(d-1, key)...))
	}
	return req
}

func c22SameUpd(a, b map[string]interface{}) bool {
	if len(a) != len(b) {
		return false
	}
	for k, v := range a {
		w, ok := b[k]
		if !ok || !reflect.DeepEqual(v, w) {
			return false
		}
	}
	return true
}

func c22SameDel(a, b map[string]struct{}) bool {
	if len(a) != len(b) {
		return false
	}
	for k := range a {
		if _, ok := b[k]; !ok {
			return false
		}
	}
	return true
}

func c22Empty(d SetRequestIntentDiff) bool {
	return len(d.MissingUpdates) == 0 && len(d.ExtraUpdates) == 0 && len(d.MismatchedUpdates) == 0 &&
		len(d.MissingDeletes) == 0 && len(d.ExtraDeletes) == 0
}

func c22Slots() int {
	if symTier() > 0 {
		return 5
	}
	return 4
}

// H_C22_swap: DiffSetRequest(a, a) is empty; DiffSetRequest(b, a) is DiffSetRequest(a, b)
// with missing/extra and A/B swapped and the common entries kept (schema-less arm).
//
//gosym:maxpaths=400000
func H_C22_swap() {
	// quick: 3 leaf slots per request and 1-byte keys; thorough: 4 slots, 1..2-byte keys
	ka, kb := c22Key("ka", 1+symTier()), c22Key("kb", 1+symTier())
	a := c22Request("a.", c22Slots()-1, ka)
	b := c22Request("b.", c22Slots()-1, kb)
	self, err := DiffSetRequest(a, a, nil)
	symReach("self")
	if err == nil {
		symAssert(c22Empty(self), "DiffSetRequest(a, a) must report nothing missing, extra or mismatched")
		symAssert(len(self.CommonUpdates) == len(a.Update) && len(self.CommonDeletes) == len(a.Delete), "DiffSetRequest(a, a) must report every entry as common")
	}
	ab, err1 := DiffSetRequest(a, b, nil)
	ba, err2 := DiffSetRequest(b, a, nil)
	symAssert((err1 == nil) == (err2 == nil), "swapping the arguments must not change whether the diff succeeds")
	symAssert(err == nil || err1 != nil, "a request that cannot be diffed against itself cannot be diffed against another")
	if err1 != nil || err2 != nil {
		return
	}
	symReach("swapped")
	symAssert(c22SameUpd(ab.MissingUpdates, ba.ExtraUpdates) && c22SameUpd(ab.ExtraUpdates, ba.MissingUpdates), "swap must exchange missing and extra updates")
	symAssert(c22SameDel(ab.MissingDeletes, ba.ExtraDeletes) && c22SameDel(ab.ExtraDeletes, ba.MissingDeletes), "swap must exchange missing and extra deletes")
	symAssert(c22SameUpd(ab.CommonUpdates, ba.CommonUpdates) && c22SameDel(ab.CommonDeletes, ba.CommonDeletes), "swap must keep the common entries")
	symAssert(len(ab.MismatchedUpdates) == len(ba.MismatchedUpdates), "swap must keep the set of mismatched paths")
	for p, m := range ab.MismatchedUpdates {
		w, ok := ba.MismatchedUpdates[p]
		symAssert(ok && reflect.DeepEqual(m.A, w.B) && reflect.DeepEqual(m.B, w.A), "swap must exchange A and B in every mismatch")
	}
}

// c22Rewrite returns a request with the same intent as req (all of whose updates lie
// under /interfaces/interface[name=key] when split > 0).
func c22Rewrite(req *gpb.SetRequest, how int, split int) *gpb.SetRequest {
	out := &gpb.SetRequest{}
	for _, d := range req.Delete {
		out.Delete = append(out.Delete, c22P(d.Elem...))
	}
	for _, u := range req.Update {
		out.Update = append(out.Update, &gpb.Update{Path: c22P(u.Path.Elem...), Val: u.Val})
	}
	for _, u := range req.Replace {
		out.Replace = append(out.Replace, &gpb.Update{Path: c22P(u.Path.Elem...), Val: u.Val})
	}
	switch how {
	case 0: // different prefix split
		if split > 0 {
			var first []*gpb.PathElem
			if len(out.Update) > 0 {
				first = out.Update[0].Path.Elem
			} else if len(out.Delete) > 0 {
				first = out.Delete[0].Elem
			}
			out.Prefix = c22P(first[:split]...)
			for _, u := range out.Update {
				u.Path = c22P(u.Path.Elem[split:]...)
			}
			for i, d := range out.Delete {
				out.Delete[i] = c22P(d.Elem[split:]...)
			}
		}
	case 1: // reordered updates
		for i, j := 0, len(out.Update)-1; i < j; i, j = i+1, j-1 {
			out.Update[i], out.Update[j] = out.Update[j], out.Update[i]
		}
	case 2: // a leaf replace instead of a leaf update
		if len(out.Update) > 0 {
			out.Replace = append(out.Replace, out.Update[0])
			out.Update = out.Update[1:]
		}
	case 3: // a duplicated identical update
		if len(out.Update) > 0 {
			u := out.Update[len(out.Update)-1]
			out.Update = append(out.Update, &gpb.Update{Path: c22P(u.Path.Elem...), Val: u.Val})
		}
	}
	return out
}

// H_C22_rewrites: intent-preserving rewrites of a request (prefix split, reordering,
// leaf replace for leaf update, duplicated identical update) diff as empty.
//
//gosym:maxpaths=400000
func H_C22_rewrites() {
	key := c22Key("k", 2)
	how := symChoose("how", 4)
	req := &gpb.SetRequest{}
	split := 0
	if how == 0 {
		// every path under the same list entry so that a common prefix exists
		for i := 0; i < 2; i++ {
			if symBool("has") {
				l := c22Slot(i, "r.", key)
				req.Update = append(req.Update, &gpb.Update{Path: c22P(l.elems...), Val: l.val})
			}
		}
		if len(req.Update) == 0 {
			return
		}
		split = 1 + symChoose("split", 2)
	} else {
		req = c22Request("r.", c22Slots(), key)
	}
	rw := c22Rewrite(req, how, split)
	_, errSelf := DiffSetRequest(req, req, nil)
	d, err := DiffSetRequest(req, rw, nil)
	symReach("diffed")
	if how == 3 {
		symAssert(errSelf != nil || err == nil, "a duplicated identical update must be accepted")
	}
	if err != nil {
		return
	}
	symReach("no error")
	symAssert(c22Empty(d), "requests with the same intent must have an empty diff")
	symAssert(len(d.CommonUpdates) == len(req.Update), "every leaf of the request is common")
}

var c22Docs = []struct {
	key string // list key value in the document
	doc string // JSON at /interfaces
}{
	{"e0", `{"interface":[{"name":"e0","config":{"name":"e0","mtu":1500,"description":"ab"}}]}`},
	{"a]", `{"interface":[{"name":"a]","config":{"name":"a]","mtu":1500,"description":"ab"}}]}`},
	{"a/b", `{"interface":[{"name":"a/b","config":{"name":"a/b","mtu":1500,"description":"ab"}}]}`},
	{`a\`, `{"interface":[{"name":"a\\","config":{"name":"a\\","mtu":1500,"description":"ab"}}]}`},
	{"a=", `{"interface":[{"name":"a=","config":{"name":"a=","mtu":1500,"description":"ab"}}]}`},
	{"[a", `{"interface":[{"name":"[a","config":{"name":"[a","mtu":1500,"description":"ab"}}]}`},
	{"a b", `{"openconfig-interfaces:interface":[{"name":"a b","config":{"name":"a b","mtu":1500,"description":"ab"}}]}`},
	{"a//b", `{"interface":[{"name":"a//b","config":{"name":"a//b","mtu":1500,"description":"ab"}}]}`},
	{"/../", `{"interface":[{"name":"/../","config":{"name":"/../","mtu":1500,"description":"ab"}}]}`},
}

// H_C22_json: one JSON update against the equivalent leaf updates (symbolic key and
// values): the diff is empty exactly when the values agree, and a differing leaf is
// reported as mismatched at its own path.
//
//gosym:maxpaths=400000
func H_C22_json() {
	dc := c22Docs[symChoose("doc", len(c22Docs))]
	key := symStringN("k", len(dc.key))
	symAssume(utf8.ValidString(key))
	mtu := symUint64("mtu")
	descr := symString("descr", 2)
	a := &gpb.SetRequest{Update: []*gpb.Update{{Path: c22P(c22E("interfaces")), Val: c22JSON(dc.doc)}}}
	ifc := []*gpb.PathElem{c22E("interfaces"), c22E("interface", "name", key)}
	b := &gpb.SetRequest{Update: []*gpb.Update{
		{Path: c22P(append(ifc[:2:2], c22E("name"))...), Val: c22Str(key)},
		{Path: c22P(append(ifc[:2:2], c22E("config"), c22E("name"))...), Val: c22Str(key)},
		{Path: c22P(append(ifc[:2:2], c22E("config"), c22E("mtu"))...), Val: c22Uint(mtu)},
		{Path: c22P(append(ifc[:2:2], c22E("config"), c22E("description"))...), Val: c22Str(descr)},
	}}
	if symBool("swap") {
		a, b = b, a
	}
	d, err := DiffSetRequest(a, b, nil)
	symReach("diffed")
	symAssert(err == nil, "both encodings are valid requests")
	if err != nil {
		return
	}
	if key == dc.key {
		symReach("same entry")
		symAssert(len(d.MissingUpdates) == 0 && len(d.ExtraUpdates) == 0, "same leaves written by both encodings: nothing missing or extra")
		symAssert(len(d.MismatchedUpdates) == btoi(mtu != 1500)+btoi(descr != "ab"), "exactly the leaves whose values differ are mismatched")
		symAssert(len(d.CommonUpdates)+len(d.MismatchedUpdates) == 4, "all four leaves are compared")
	} else {
		symAssert(len(d.MissingUpdates) == 4 && len(d.ExtraUpdates) == 4, "different list entries have no leaf in common")
	}
}

func btoi(b bool) int {
	if b {
		return 1
	}
	return 0
}

// H_C22_leaflist_encodings: a leaf-list set by leaflist_val against the same leaf-list
// in a JSON document (0..2 elements).
func H_C22_leaflist_encodings() {
	n := symChoose("n", 3)
	docs := []string{`{"config":{"tags":[]}}`, `{"config":{"tags":["x"]}}`, `{"config":{"tags":["x","y"]}}`}
	var ss []string
	for i := 0; i < n; i++ {
		ss = append(ss, symString("e", 1))
	}
	a := &gpb.SetRequest{Update: []*gpb.Update{{Path: c22P(c22E("system")), Val: c22JSON(docs[n])}}}
	b := &gpb.SetRequest{Update: []*gpb.Update{{Path: c22P(c22E("system"), c22E("config"), c22E("tags")), Val: c22LL(ss...)}}}
	if symBool("leafjson") {
		a = &gpb.SetRequest{Update: []*gpb.Update{{Path: c22P(c22E("system"), c22E("config"), c22E("tags")), Val: c22JSON([]string{`[]`, `["x"]`, `["x","y"]`}[n])}}}
	}
	d, err := DiffSetRequest(a, b, nil)
	symReach("diffed")
	symAssert(err == nil, "both encodings are valid requests")
	if err != nil {
		return
	}
	same := (n < 1 || ss[0] == "x") && (n < 2 || ss[1] == "y")
	symAssert(len(d.MissingUpdates) == 0 && len(d.ExtraUpdates) == 0, "the same leaf-list path is written by both encodings")
	symAssert((len(d.MismatchedUpdates) == 0) == same, "the leaf-list is mismatched exactly when its elements differ")
}
