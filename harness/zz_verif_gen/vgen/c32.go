//go:build verif

package vgen

import (
	"github.com/openconfig/ygot/ygot"
)

// H_C32_prune: after PruneConfigFalse no config-false data remains (leaf, union leaf
// holding a zero value, leaf under a config-false choice, container with leaf and
// unkeyed list) and every config-true value is unchanged.
func H_C32_prune() {
	c := &V_C{}
	d := &Device{C: c}
	// config true data
	cfgSet, dSet, ksSet := symBool("cfg"), symBool("d"), symBool("ks")
	var cfg string
	var du32 uint32
	if cfgSet {
		cfg = c01S("cfgv", 1)
		c.Cfg = &cfg
	}
	if dSet {
		du32 = symUint32("du32")
		c.D = &V_C_D{Du32: &du32}
	}
	if ksSet {
		k := "k"
		c.Ks = map[string]*V_C_Ks{"k": {Name: &k}}
	}
	// config false data
	if symBool("ro") {
		s := c01S("rov", 1)
		c.Ro = &s
	}
	switch symChoose("rou", 4) {
	case 1:
		c.Rou = UnionUint16(symUint16("rou16")) // may be the zero value
	case 2:
		c.Rou = UnionString("")
	case 3:
		c.Rou = UnionString(c01S("rous", 1))
	}
	if symBool("uptime") {
		u := symUint32("uptimev")
		c.Uptime = &u
	}
	if symBool("st") {
		cnt := symUint64("cnt")
		n := "n"
		c.St = &V_C_St{Counter: &cnt, Ul: []*V_C_St_Ul{{Name: &n}}}
	}
	err := ygot.PruneConfigFalse(SchemaTree["Device"], d)
	symReach("pruned")
	symAssert(err == nil, "PruneConfigFalse fails")
	symAssert(c.Ro == nil, "config-false leaf must be removed")
	symAssert(c.Rou == nil, "config-false union leaf must be removed (also when it holds a zero value)")
	symAssert(c.Uptime == nil, "leaf under a config-false choice must be removed")
	symAssert(c.St == nil, "config-false container must be removed")
	symAssert((c.Cfg != nil) == cfgSet && (!cfgSet || *c.Cfg == cfg), "config-true leaf must be unchanged")
	symAssert((c.D != nil) == dSet && (!dSet || (c.D.Du32 != nil && *c.D.Du32 == du32)), "config-true container must be unchanged")
	symAssert((len(c.Ks) == 1) == ksSet, "config-true list must be unchanged")
}
