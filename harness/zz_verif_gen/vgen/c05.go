//go:build verif

package vgen

import (
	"reflect"

	"github.com/openconfig/ygot/ygot"
)

func c05Opt(name string) (*string, bool) {
	if !symBool(name + ".set") {
		return nil, false
	}
	s := symStringN(name, 1)
	return &s, true
}

// H_C05_leaves: scalar and enumeration leaves: the merge succeeds exactly when every
// leaf set in both trees has the same value; the result is the union, the inputs are
// unchanged, and swapping compatible inputs gives the same result. With
// MergeOverwriteExistingFields leaf conflicts never fail and b's values win.
func H_C05_leaves() {
	a, b := &V_C{}, &V_C{}
	var aset, bset bool
	a.Cfg, aset = c05Opt("a.cfg")
	b.Cfg, bset = c05Opt("b.cfg")
	a.Col = E_V_Colour(symChoose("a.col", 3)) * 2 // 0 unset, 2 RED, 4 (undefined but non-zero)
	b.Col = E_V_Colour(symChoose("b.col", 3)) * 2
	overwrite := symBool("overwrite")
	as, bs := symSnapshot(a), symSnapshot(b) // engine-made copies, independent of ygot.DeepCopy
	var mI ygot.GoStruct
	var err error
	if overwrite {
		mI, err = ygot.MergeStructs(a, b, &ygot.MergeOverwriteExistingFields{})
	} else {
		mI, err = ygot.MergeStructs(a, b)
	}
	leafConflict := aset && bset && *a.Cfg != *b.Cfg
	enumConflict := a.Col != 0 && b.Col != 0 && a.Col != b.Col
	symReach("merged")
	symAssert(reflect.DeepEqual(a, as) && reflect.DeepEqual(b, bs), "MergeStructs must not modify its inputs")
	if overwrite {
		symAssert(err == nil, "with MergeOverwriteExistingFields leaf conflicts must not fail")
	} else {
		symAssert((err != nil) == (leafConflict || enumConflict), "merge must fail exactly on conflicting leaf values")
	}
	if err != nil {
		return
	}
	m := mI.(*V_C)
	switch {
	case bset && (overwrite || !aset):
		symAssert(m.Cfg != nil && *m.Cfg == *b.Cfg, "leaf set in b (b wins with overwrite)")
	case aset:
		symAssert(m.Cfg != nil && *m.Cfg == *a.Cfg, "leaf set in a only")
	default:
		symAssert(m.Cfg == nil, "leaf set in neither input")
	}
	wantCol := a.Col
	if b.Col != 0 && (overwrite || a.Col == 0) {
		wantCol = b.Col
	}
	symAssert(m.Col == wantCol, "enumeration leaf of the merge")
	if !overwrite {
		m2I, err2 := ygot.MergeStructs(b, a)
		symAssert(err2 == nil && reflect.DeepEqual(m2I, mI), "swapping compatible inputs must give the same result")
	}
}

// H_C05_leaflist: leaf-lists set in both inputs must be equal or disjoint.
func H_C05_leaflist() {
	a, b := &V_C{}, &V_C{}
	na, nb := symChoose("na", 3), symChoose("nb", 3)
	for i := 0; i < na; i++ {
		s := symStringN(symName("a", i), 1)
		for _, p := range a.Ll {
			symAssume(s != p)
		}
		a.Ll = append(a.Ll, s)
	}
	for i := 0; i < nb; i++ {
		s := symStringN(symName("b", i), 1)
		for _, p := range b.Ll {
			symAssume(s != p)
		}
		b.Ll = append(b.Ll, s)
	}
	mI, err := ygot.MergeStructs(a, b)
	equal := na == nb
	overlap := false
	for i := range a.Ll {
		if equal && a.Ll[i] != b.Ll[i] {
			equal = false
		}
		for j := range b.Ll {
			if a.Ll[i] == b.Ll[j] {
				overlap = true
			}
		}
	}
	compatible := na == 0 || nb == 0 || equal || !overlap
	symReach("merged")
	symAssert((err == nil) == compatible, "leaf-lists set in both inputs must merge exactly when equal or disjoint")
	if err == nil {
		m := mI.(*V_C)
		want := len(a.Ll) + len(b.Ll)
		if equal && na > 0 {
			want = na
		}
		symAssert(len(m.Ll) == want, "merged leaf-list must be the union")
	}
}

// H_C05_lists: keyed-list entries are merged by key; ordered lists must be disjoint or
// b's keys a same-order subset of a's.
//
//gosym:maxpaths=200000
func H_C05_lists() {
	a, b := &V_C{}, &V_C{}
	if symBool("keyed") {
		ka, kb := symStringN("ka", 1), symStringN("kb", 1)
		ka2, kb2 := ka, kb
		va, vb := symUint16("va"), symUint16("vb")
		x := symInt8("xa")
		a.Ks = map[string]*V_C_Ks{ka: {Name: &ka2, Val: &va, Sub: &V_C_Ks_Sub{X: &x}}} // a's entry has data b's lacks
		b.Ks = map[string]*V_C_Ks{kb: {Name: &kb2, Val: &vb}}
		overwrite := symBool("overwrite")
		var mI ygot.GoStruct
		var err error
		if overwrite {
			mI, err = ygot.MergeStructs(a, b, &ygot.MergeOverwriteExistingFields{})
		} else {
			mI, err = ygot.MergeStructs(a, b)
		}
		conflict := ka == kb && va != vb && !overwrite
		symReach("keyed")
		symAssert((err != nil) == conflict, "keyed list entries with the same key must merge unless a leaf conflicts")
		if err == nil {
			m := mI.(*V_C)
			if ka == kb {
				symAssert(len(m.Ks) == 1, "same key: one merged entry")
				e := m.Ks[ka]
				symAssert(e != nil && e.Sub != nil && e.Sub.X != nil && *e.Sub.X == x, "data only a's entry holds must survive the merge")
				symAssert(e.Val != nil && *e.Val == vb, "leaf of the shared entry (b wins or values equal)")
			} else {
				symAssert(len(m.Ks) == 2 && m.Ks[ka] != nil && m.Ks[kb] != nil, "different keys: both entries")
			}
		}
		return
	}
	na, nb := 1+symChoose("na", 3), 1+symChoose("nb", 3)
	a.Ol, b.Ol = &V_C_Ol_OrderedMap{}, &V_C_Ol_OrderedMap{}
	var ak, bk []string
	for i := 0; i < na; i++ {
		k := symStringN(symName("a", i), 1)
		for _, p := range ak {
			symAssume(k != p)
		}
		ak = append(ak, k)
		a.Ol.AppendNew(k)
	}
	for i := 0; i < nb; i++ {
		k := symStringN(symName("b", i), 1)
		for _, p := range bk {
			symAssume(k != p)
		}
		bk = append(bk, k)
		b.Ol.AppendNew(k)
	}
	_, err := ygot.MergeStructs(a, b)
	// reference: disjoint, or b's keys are a subsequence of a's keys
	disjoint := true
	for _, x := range ak {
		for _, y := range bk {
			if x == y {
				disjoint = false
			}
		}
	}
	si := 0
	for di := 0; di < len(ak) && si < len(bk); di++ {
		if ak[di] == bk[si] {
			si++
		}
	}
	subseq := si == len(bk)
	symReach("ordered")
	symAssert((err == nil) == (disjoint || subseq), "ordered lists must merge exactly when disjoint or when b's keys are a same-order subset of a's")
}
