//go:build verif

package vgen

import (
	gpb "github.com/openconfig/gnmi/proto/gnmi"
	"github.com/openconfig/ygot/ytypes"
)

func c13Str(s string) *gpb.TypedValue {
	return &gpb.TypedValue{Value: &gpb.TypedValue_StringVal{StringVal: s}}
}

// c13Split returns (prefix, suffix) for a path cut at a symbolic position.
func c13Split(name string, full []*gpb.PathElem) (*gpb.Path, *gpb.Path) {
	cut := symChoose(name, len(full)+1)
	return &gpb.Path{Elem: full[:cut:cut]}, &gpb.Path{Elem: full[cut:]}
}

// H_C13_setrequest: UnmarshalSetRequest = prefix joined to every path, then all
// deletes, then each replace (delete + write), then each update, in message order; on a
// path -> value model of three leaves (/c/cfg, /c/ks[name=a]/val-as-string n/a -> /c/ro,
// /c/d/dstr).
//
//gosym:maxpaths=300000
func H_C13_setrequest() {
	// model: three string leaves; nil = unset
	var cfg, ro, dstr *string
	d := &Device{}
	if symBool("pre.cfg") {
		s := symStringN("pre.cfgv", 1)
		cfg = &s
	}
	if symBool("pre.ro") {
		s := symStringN("pre.rov", 1)
		ro = &s
	}
	if symBool("pre.dstr") {
		s := "ab"
		dstr = &s
	}
	if cfg != nil || ro != nil || dstr != nil {
		d.C = &V_C{}
		if cfg != nil {
			v := *cfg
			d.C.Cfg = &v
		}
		if ro != nil {
			v := *ro
			d.C.Ro = &v
		}
		if dstr != nil {
			v := *dstr
			d.C.D = &V_C_D{Dstr: &v}
		}
	}
	schema := &ytypes.Schema{Root: d, SchemaTree: SchemaTree, Unmarshal: Unmarshal}
	leafPath := func(i int) []*gpb.PathElem {
		switch i {
		case 0:
			return []*gpb.PathElem{c10E("c"), c10E("cfg")}
		case 1:
			return []*gpb.PathElem{c10E("c"), c10E("ro")}
		}
		return []*gpb.PathElem{c10E("c"), c10E("d"), c10E("dstr")}
	}
	set := func(i int, v *string) {
		switch i {
		case 0:
			cfg = v
		case 1:
			ro = v
		default:
			dstr = v
		}
	}
	// the request: a common prefix (0..1 elements of /c), one delete, one replace, one
	// update, each present or absent, each on a symbolic leaf
	usePrefix := symBool("prefix")
	strip := func(full []*gpb.PathElem) *gpb.Path {
		if usePrefix {
			return &gpb.Path{Elem: full[1:]}
		}
		return &gpb.Path{Elem: full}
	}
	req := &gpb.SetRequest{}
	if usePrefix {
		req.Prefix = &gpb.Path{Elem: []*gpb.PathElem{c10E("c")}}
	}
	var delI, repI, updI = -1, -1, -1
	var repV, updV string
	if symBool("delete") {
		delI = symChoose("delete.leaf", 3)
		req.Delete = append(req.Delete, strip(leafPath(delI)))
	}
	if symBool("replace") {
		repI = symChoose("replace.leaf", 3)
		repV = symStringN("replace.v", 1)
		if repI == 2 {
			repV = "cd" // dstr has a length/pattern restriction; keep it valid
		}
		req.Replace = append(req.Replace, &gpb.Update{Path: strip(leafPath(repI)), Val: c13Str(repV)})
	}
	// a second replace, of the container /c/d, with a JSON_IETF payload
	rep2 := symBool("replace2")
	if rep2 {
		req.Replace = append(req.Replace, &gpb.Update{Path: strip([]*gpb.PathElem{c10E("c"), c10E("d")}),
			Val: &gpb.TypedValue{Value: &gpb.TypedValue_JsonIetfVal{JsonIetfVal: []byte(`{"du32": 7}`)}}})
	}
	if symBool("update") {
		updI = symChoose("update.leaf", 3)
		updV = symStringN("update.v", 1)
		if updI == 2 {
			updV = "ef"
		}
		req.Update = append(req.Update, &gpb.Update{Path: strip(leafPath(updI)), Val: c13Str(updV)})
	}
	err := ytypes.UnmarshalSetRequest(schema, req)
	symReach("applied")
	symAssert(err == nil, "UnmarshalSetRequest fails on a valid request")
	// reference semantics: deletes, then replaces, then updates
	if delI >= 0 {
		set(delI, nil)
	}
	if repI >= 0 {
		v := repV
		set(repI, &v)
	}
	if rep2 {
		dstr = nil // the container is deleted, then the payload (du32 only) is written
	}
	if updI >= 0 {
		v := updV
		set(updI, &v)
	}
	got := schema.Root.(*Device)
	c := got.C
	if c == nil {
		c = &V_C{}
	}
	eq := func(a, b *string) bool {
		if a == nil || b == nil {
			return a == nil && b == nil
		}
		return *a == *b
	}
	symAssert(eq(c.Cfg, cfg), "/c/cfg differs from the gNMI Set reference semantics")
	symAssert(eq(c.Ro, ro), "/c/ro differs from the gNMI Set reference semantics")
	var gd *string
	if c.D != nil {
		gd = c.D.Dstr
	}
	symAssert(eq(gd, dstr), "/c/d/dstr differs from the gNMI Set reference semantics")
	if rep2 {
		symAssert(c.D != nil && c.D.Du32 != nil && *c.D.Du32 == 7, "payload of the container replace")
	}
}

// H_C13_atomic: each atomic notification passed to UnmarshalNotifications replaces the
// subtree at its prefix (also when two consecutive ones share prefix and timestamp).
func H_C13_atomic() {
	d := &Device{}
	if symBool("pre") {
		s := "zz"
		u := symUint32("pre.du32")
		d.C = &V_C{D: &V_C_D{Dstr: &s, Du32: &u}}
	}
	schema := &ytypes.Schema{Root: d, SchemaTree: SchemaTree, Unmarshal: Unmarshal}
	pfx := &gpb.Path{Elem: []*gpb.PathElem{c10E("c"), c10E("d")}}
	v1 := symStringN("v1", 2)
	symAssume(v1[0] >= 'a' && v1[0] <= 'z' && v1[1] >= 'a' && v1[1] <= 'z')
	n1 := &gpb.Notification{Atomic: true, Prefix: pfx, Update: []*gpb.Update{{Path: &gpb.Path{Elem: []*gpb.PathElem{c10E("dstr")}}, Val: c13Str(v1)}}}
	ns := []*gpb.Notification{n1}
	two := symBool("two")
	u2 := symUint32("u2")
	symAssume(u2 >= 1 && u2 <= 100)
	if two {
		n2 := &gpb.Notification{Atomic: true, Prefix: pfx, Update: []*gpb.Update{{Path: &gpb.Path{Elem: []*gpb.PathElem{c10E("du32")}},
			Val: &gpb.TypedValue{Value: &gpb.TypedValue_UintVal{UintVal: uint64(u2)}}}}}
		ns = append(ns, n2)
	}
	err := ytypes.UnmarshalNotifications(schema, ns)
	symReach("applied")
	symAssert(err == nil, "UnmarshalNotifications fails on valid atomic notifications")
	dd := schema.Root.(*Device).C.D
	if two {
		symAssert(dd.Dstr == nil, "the second atomic notification must replace the subtree written by the first")
		symAssert(dd.Du32 != nil && *dd.Du32 == u2, "payload of the second atomic notification")
	} else {
		symAssert(dd.Dstr != nil && *dd.Dstr == v1, "payload of the atomic notification")
		symAssert(dd.Du32 == nil, "an atomic notification must remove what was under its prefix before")
	}
}
