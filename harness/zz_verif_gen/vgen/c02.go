//go:build verif

package vgen

import (
	"reflect"

	gpb "github.com/openconfig/gnmi/proto/gnmi"
	"github.com/openconfig/ygot/ygot"
	"github.com/openconfig/ygot/ytypes"
)

// H_C02_roundtrip: the notifications TogNMINotifications produces for a tree (PathElem
// form) can be applied with UnmarshalNotifications to an empty root and give back the
// same tree; nothing is rejected.
//
//gosym:maxpaths=200000
//gosym:timeout_ms=60000
func H_C02_roundtrip() {
	c := c01Tree()
	if c.St != nil {
		c.St.Ul = nil // keyless lists have no gNMI path; TogNMINotifications documents them as unimplemented
	}
	d := &Device{C: c}
	// either the root is rendered without prefix, or the subtree /c with its location as prefix
	var ns []*gpb.Notification
	var err error
	if symBool("prefix") {
		ns, err = ygot.TogNMINotifications(c, 42, ygot.GNMINotificationsConfig{UsePathElem: true, PathElemPrefix: []*gpb.PathElem{c10E("c")}})
	} else {
		ns, err = ygot.TogNMINotifications(d, 42, ygot.GNMINotificationsConfig{UsePathElem: true})
	}
	symReach("rendered")
	symAssert(err == nil, "TogNMINotifications fails on a valid tree")
	back := &Device{}
	schema := &ytypes.Schema{Root: back, SchemaTree: SchemaTree, Unmarshal: Unmarshal}
	symKnown("C02-empty-leaflist", c.Ll != nil && len(c.Ll) == 0)
	err = ytypes.UnmarshalNotifications(schema, ns)
	if err != nil && !symIsSymbolic() {
		symObserve("error", err.Error())
	}
	symAssert(err == nil, "UnmarshalNotifications rejects notifications that ygot produced")
	got := schema.Root.(*Device)
	if got.C == nil {
		got.C = &V_C{}
	}
	// the statement is about leaves and leaf-lists: an empty presence container has none
	c.Pc, got.C.Pc = nil, nil
	if len(c.Ll) == 0 {
		c.Ll, got.C.Ll = nil, nil
	}
	symAssert(reflect.DeepEqual(c, got.C), "the round trip changes the tree")
}
