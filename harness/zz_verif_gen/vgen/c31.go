//go:build verif

package vgen

import (
	"github.com/openconfig/ygot/ytypes"
)

// H_C31_merge: Unmarshal of a decoded RFC7951 JSON tree into a populated /v/c: leaves
// not mentioned keep their value, mentioned leaves are overwritten, a mentioned
// leaf-list is replaced wholesale (also by []), list entries are merged by key;
// unknown members are an error unless IgnoreExtraFields is given, in which case
// everything else is applied as without them.
//
//gosym:maxpaths=300000
func H_C31_merge() {
	c := &V_C{}
	// existing data
	var cfg *string
	if symBool("pre.cfg") {
		s := symStringN("pre.cfgv", 1)
		cfg = &s
		c.Cfg = cfg
	}
	ro := "keep"
	c.Ro = &ro
	preLl := symBool("pre.ll")
	if preLl {
		c.Ll = []string{"o1", "o2"}
	}
	ka := "a"
	va := symUint16("pre.a.val")
	c.Ks = map[string]*V_C_Ks{"a": {Name: &ka, Val: &va, Tags: []string{"t1"}}}
	// the JSON document
	j := map[string]interface{}{}
	var jcfg string
	hasCfg := symBool("j.cfg")
	if hasCfg {
		jcfg = symStringN("j.cfgv", 1)
		j["cfg"] = jcfg
	}
	llKind := symChoose("j.ll", 3) // absent, [], ["n"]
	switch llKind {
	case 1:
		j["ll"] = []interface{}{}
	case 2:
		j["ll"] = []interface{}{"n"}
	}
	entryKind := symChoose("j.ks", 4) // absent, existing key, new key, existing key with tags: []
	unknownInEntry := false
	var jval float64
	if entryKind > 0 {
		jval = []float64{0, 7, 65535}[symChoose("j.val", 3)] // number decoding itself is C18's subject
		e := map[string]interface{}{"val": jval}
		switch entryKind {
		case 1:
			e["name"] = "a"
		case 2:
			e["name"] = "n"
		case 3:
			e["name"] = "a"
			e["tags"] = []interface{}{}
		}
		if symBool("unknown.entry") {
			e["bogus"] = "x"
			unknownInEntry = true
		}
		j["ks"] = []interface{}{e}
	}
	unknownTop := symBool("unknown.top")
	if unknownTop {
		j["nosuch"] = float64(1)
	}
	ignore := symBool("ignore_extra")
	var err error
	if ignore {
		err = ytypes.Unmarshal(SchemaTree["V_C"], c, j, &ytypes.IgnoreExtraFields{})
	} else {
		err = ytypes.Unmarshal(SchemaTree["V_C"], c, j)
	}
	symReach("unmarshalled")
	unknown := unknownTop || unknownInEntry
	symAssert((err != nil) == (unknown && !ignore), "unknown members must fail exactly when IgnoreExtraFields is not given")
	if err != nil {
		return
	}
	// everything not mentioned is unchanged
	symAssert(c.Ro != nil && *c.Ro == "keep", "a leaf not mentioned in the JSON must keep its value")
	if hasCfg {
		symAssert(c.Cfg != nil && *c.Cfg == jcfg, "a mentioned leaf must be overwritten")
	} else {
		symAssert(c.Cfg == cfg, "a leaf not mentioned in the JSON must keep its value (cfg)")
	}
	switch llKind {
	case 0:
		symAssert(len(c.Ll) == map[bool]int{true: 2, false: 0}[preLl], "a leaf-list not mentioned must keep its values")
	case 1:
		symAssert(len(c.Ll) == 0, "a leaf-list mentioned as [] must be emptied")
	case 2:
		symAssert(len(c.Ll) == 1 && c.Ll[0] == "n", "a mentioned leaf-list must be replaced wholesale")
	}
	a := c.Ks["a"]
	symAssert(a != nil && a.Name != nil, "the existing list entry must stay")
	switch entryKind {
	case 0:
		symAssert(len(c.Ks) == 1 && *a.Val == va && len(a.Tags) == 1, "a list not mentioned must be unchanged")
	case 1:
		symAssert(len(c.Ks) == 1 && float64(*a.Val) == jval && len(a.Tags) == 1, "an existing entry is updated in place; its other data stays")
	case 2:
		n := c.Ks["n"]
		symAssert(len(c.Ks) == 2 && n != nil && float64(*n.Val) == jval && *a.Val == va, "a new key adds an entry and leaves the existing one alone")
	case 3:
		symAssert(len(c.Ks) == 1 && float64(*a.Val) == jval && len(a.Tags) == 0, "a leaf-list mentioned as [] inside an existing entry must be emptied")
	}
}
