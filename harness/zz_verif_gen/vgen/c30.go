//go:build verif

package vgen

import (
	"github.com/openconfig/ygot/ytypes"
)

// H_C30_leafref: validating from the root reports an error exactly when some leafref
// leaf (a plain leaf and a list key) holds a value not found among the keys of the list
// its path selects; with IgnoreMissingData no leafref error is reported.
//
//gosym:maxpaths=200000
func H_C30_leafref() {
	c := &V_C{}
	n := symChoose("entries", 3)
	var keys []string
	if n > 0 {
		c.Ks = map[string]*V_C_Ks{}
	}
	for i := 0; i < n; i++ {
		k := c01S(symName("k", i), 1)
		for _, p := range keys {
			symAssume(k != p)
		}
		kk := k
		c.Ks[k] = &V_C_Ks{Name: &kk}
		keys = append(keys, k)
	}
	in := func(v string) bool {
		r := false
		for _, k := range keys {
			r = symOr(r, v == k)
		}
		return r
	}
	dangling := false
	if symBool("ref.set") {
		v := c01S("ref", 1)
		c.Ref = &v
		dangling = symOr(dangling, !in(v))
	}
	if symBool("lr.set") {
		v := c01S("lr", 1)
		vv := v
		c.Lr = map[string]*V_C_Lr{v: {R: &vv}}
		dangling = symOr(dangling, !in(v))
	}
	// leafref with a key predicate taken from a sibling leaf: ../ks[name=current()/../sel]/val
	if symBool("pref.set") {
		pv := symUint16("pref")
		c.Pref = &pv
		found := false
		var v uint16
		hasVal := len(keys) > 0 && symBool("val.set") // only the first entry may carry the target leaf
		if hasVal {
			v = symUint16("val")
			c.Ks[keys[0]].Val = &v
		}
		if symBool("sel.set") {
			sel := c01S("sel", 1)
			c.Sel = &sel
			// known finding: a predicate value of "*" is treated as a wildcard
			symKnown("C30-star-predicate", sel == "*")
			if hasVal {
				found = symAnd(keys[0] == sel, v == pv)
			}
		}
		dangling = symOr(dangling, !found)
	}
	d := &Device{C: c}
	ignore := symBool("ignore_missing")
	err := d.ΛValidate(&ytypes.LeafrefOptions{IgnoreMissingData: ignore, Log: symBool("log")})
	symReach("validated")
	if ignore {
		symAssert(err == nil, "with IgnoreMissingData no leafref error may be reported")
	} else {
		symAssert((err != nil) == dangling, "a leafref error must be reported exactly for dangling references")
	}
}

// H_C30_multikey: a leafref whose path carries a two-key predicate
// (../k2s[k1=current()/../sel][k2=current()/../sel]/v). The list it points into is empty,
// so a set value is dangling: an error without options, none with IgnoreMissingData
// (whatever the Log flag) - also when the path resolution itself fails hard.
func H_C30_multikey() {
	c := &V_C{}
	dangling := false
	if symBool("mref.set") {
		mv := c01S("mref", 1)
		c.Mref = &mv
		dangling = true
	}
	if symBool("sel.set") {
		sel := c01S("sel", 1)
		c.Sel = &sel
	}
	if symBool("ref.set") { // an ordinary dangling reference next to it
		v := c01S("ref", 1)
		c.Ref = &v
		dangling = true
	}
	d := &Device{C: c}
	var err error
	ignore := false
	if symBool("no options") {
		err = d.ΛValidate()
	} else {
		ignore = symBool("ignore_missing")
		err = d.ΛValidate(&ytypes.LeafrefOptions{IgnoreMissingData: ignore, Log: symBool("log")})
	}
	symReach("validated")
	if ignore {
		symAssert(err == nil, "with IgnoreMissingData no leafref error may be reported")
	} else {
		symAssert((err != nil) == dangling, "a leafref error must be reported exactly for dangling references")
	}
}
