//go:build verif

package vgen

import (
	"reflect"

	"github.com/openconfig/ygot/ygot"
)

// H_C14_prune: PruneEmptyBranches returns normally, keeps every leaf, leaf-list and
// list entry, removes every container without set descendants, and is idempotent.
//
//gosym:maxpaths=200000
func H_C14_prune() {
	c := &V_C{}
	// containers: nil / empty / populated
	var dv *uint32
	switch symChoose("d", 3) {
	case 1:
		c.D = &V_C_D{}
	case 2:
		u := symUint32("du32")
		dv = &u
		c.D = &V_C_D{Du32: dv}
	}
	if symBool("pc") {
		c.Pc = &V_C_Pc{}
	}
	// keyed list entry with an empty / populated / nil nested container
	var x *int8
	ksShape := symChoose("ks", 4)
	if ksShape > 0 {
		k := "k"
		e := &V_C_Ks{Name: &k}
		switch ksShape {
		case 2:
			e.Sub = &V_C_Ks_Sub{}
		case 3:
			v := symInt8("x")
			x = &v
			e.Sub = &V_C_Ks_Sub{X: x}
		}
		c.Ks = map[string]*V_C_Ks{k: e}
	}
	// ordered list entry with nil / empty / populated container
	olShape := symChoose("ol", 4)
	var y *string
	if olShape > 0 {
		c.Ol = &V_C_Ol_OrderedMap{}
		e, _ := c.Ol.AppendNew("o")
		switch olShape {
		case 2:
			e.Oc = &V_C_Ol_Oc{}
		case 3:
			s := symStringN("y", 1)
			y = &s
			e.Oc = &V_C_Ol_Oc{Y: y}
		}
	}
	// union leaf holding a zero value, leaf-list
	if symBool("un") {
		c.Un = UnionUint16(0)
	}
	if symBool("ll") {
		c.Ll = []string{"a"}
	}
	// config-false container whose only content is an unkeyed list
	if symBool("st") {
		n := "n"
		c.St = &V_C_St{Ul: []*V_C_St_Ul{{Name: &n}}}
	}
	// nested containers whose only content is a zero-valued union leaf / an ordered list
	ucSet, oc2Set := symBool("uc"), symBool("oc2")
	if ucSet {
		if symBool("uc.str") {
			c.Uc = &V_C_Uc{U: UnionString("")}
		} else {
			c.Uc = &V_C_Uc{U: UnionInt64(0)}
		}
	}
	if oc2Set {
		c.Oc2 = &V_C_Oc2{Iol: &V_C_Oc2_Iol_OrderedMap{}}
		c.Oc2.Iol.AppendNew("i")
	}
	ygot.PruneEmptyBranches(c)
	symReach("pruned")
	symAssert((c.Uc != nil) == ucSet && (!ucSet || c.Uc.U != nil), "a container whose only content is a set (zero-valued) union leaf must stay")
	symAssert((c.Oc2 != nil) == oc2Set && (!oc2Set || c.Oc2.Iol.Len() == 1), "a container whose only content is an ordered list must stay")
	// containers
	switch {
	case dv != nil:
		symAssert(c.D != nil && c.D.Du32 == dv, "a container with a set leaf must stay, with the leaf")
	default:
		symAssert(c.D == nil, "a container without set descendants must be removed")
	}
	symAssert(c.Pc == nil, "an empty presence container counts as empty and is removed (documented)")
	if ksShape > 0 {
		e := c.Ks["k"]
		symAssert(e != nil && e.Name != nil, "list entries and their key leaves must stay")
		if x != nil {
			symAssert(e.Sub != nil && e.Sub.X == x, "populated container inside a list entry must stay")
		} else {
			symAssert(e.Sub == nil, "empty container inside a list entry must be removed")
		}
	}
	if olShape > 0 {
		symAssert(c.Ol.Len() == 1, "ordered list entries must stay")
		e := c.Ol.Get("o")
		symAssert(e != nil && e.Name != nil, "ordered list entry and its key leaf must stay")
		if y != nil {
			symAssert(e.Oc != nil && e.Oc.Y == y, "populated container inside an ordered-list entry must stay")
		} else {
			symAssert(e.Oc == nil, "empty container inside an ordered-list entry must be removed")
		}
	}
	symAssert((c.Un != nil) == (c.Un == UnionUint16(0)), "a set union leaf must stay even when it holds a zero value")
	symAssert(c.St == nil || len(c.St.Ul) == 1, "unkeyed list entries must stay")
	// idempotence
	snap := symSnapshot(c)
	ygot.PruneEmptyBranches(c)
	symAssert(reflect.DeepEqual(c, snap), "a second call must change nothing")
}

// H_C14_buildempty: BuildEmptyTree followed by PruneEmptyBranches gives the original tree back.
func H_C14_buildempty() {
	c := &V_C{}
	if symBool("cfg") {
		s := symStringN("cfgv", 1)
		c.Cfg = &s
	}
	if symBool("d") {
		u := symUint32("du32")
		c.D = &V_C_D{Du32: &u}
	}
	if symBool("ks") {
		k := "k"
		c.Ks = map[string]*V_C_Ks{k: {Name: &k}}
	}
	snap := symSnapshot(c)
	ygot.BuildEmptyTree(c)
	symAssert(c.D != nil && c.Pc != nil && c.St != nil, "BuildEmptyTree initialises every container")
	ygot.PruneEmptyBranches(c)
	symReach("roundtrip")
	symAssert(reflect.DeepEqual(c, snap), "BuildEmptyTree then PruneEmptyBranches must give the original tree back")
}
