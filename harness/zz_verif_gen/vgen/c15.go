//go:build verif

package vgen

// GENERATED from /verif/harness/_templates/c15.go.tmpl by tools/gen_harness.py — do not edit.
// One-step induction over the generated ordered-map code: an arbitrary pre-state that
// satisfies the representation invariant, one operation with arbitrary arguments,
// then the abstract insertion-ordered-map step and the invariant are asserted.

import "fmt"

// ---- single string key: V_C_Ol_OrderedMap holding *V_C_Ol keyed by field Name

type c15Model1 struct {
	keys  []string
	elems []*V_C_Ol
}

// c15Pre1 builds an arbitrary ordered map with n in {nil, 0, 1, 2, 3} entries that
// satisfies the invariant I: keys pairwise distinct, valueMap domain = keys, every
// element non-nil with its key leaf equal to its key.
func c15Pre1(tag string) (*V_C_Ol_OrderedMap, *c15Model1) {
	shape := symChoose(tag+".shape", 5)
	m := &c15Model1{}
	if shape == 0 {
		return nil, m
	}
	o := &V_C_Ol_OrderedMap{}
	for i := 0; i < shape-1; i++ {
		k := symStringN(fmt.Sprintf("%s.k%d", tag, i), 1)
		for _, prev := range m.keys {
			symAssume(k != prev)
		}
		kk := k
		e := &V_C_Ol{Name: &kk}
		o.keys = append(o.keys, k)
		if o.valueMap == nil {
			o.valueMap = map[string]*V_C_Ol{}
		}
		o.valueMap[k] = e
		m.keys = append(m.keys, k)
		m.elems = append(m.elems, e)
	}
	return o, m
}

func (m *c15Model1) find(k string) int {
	for i, x := range m.keys {
		if x == k {
			return i
		}
	}
	return -1
}

// c15Check1 asserts that o is in the abstract state m and satisfies I.
func c15Check1(o *V_C_Ol_OrderedMap, m *c15Model1) {
	if o == nil {
		symAssert(len(m.keys) == 0, "nil map must be empty")
		return
	}
	symAssert(len(o.keys) == len(m.keys), "number of keys differs from the model")
	symAssert(len(o.valueMap) == len(m.keys), "valueMap size differs from the number of keys (invariant)")
	for i := range m.keys {
		symAssert(o.keys[i] == m.keys[i], "key order differs from the insertion-ordered model")
		e := o.valueMap[m.keys[i]]
		symAssert(e != nil, "key without element (invariant)")
		symAssert(e == m.elems[i], "element differs from the model")
		symAssert(e.Name != nil && *e.Name == m.keys[i], "element key leaf differs from its key (invariant)")
	}
}

// H_C15_single_gen: single-key ordered map, all operations.
//
//gosym:maxpaths=300000
func H_C15_single_gen() {
	o, m := c15Pre1("o")
	op := symChoose("op", 8)
	switch op {
	case 0: // Append
		var v *V_C_Ol
		kind := symChoose("vkind", 3)
		k := symStringN("arg", 1)
		switch kind {
		case 0:
			v = nil
		case 1:
			v = &V_C_Ol{}
		case 2:
			kk := k
			v = &V_C_Ol{Name: &kk}
		}
		err := o.Append(v)
		ok := o != nil && kind == 2 && m.find(k) < 0
		symReach("append")
		symAssert((err == nil) == ok, "Append must succeed exactly for a new non-nil key on a non-nil map")
		if ok {
			m.keys = append(m.keys, k)
			m.elems = append(m.elems, v)
		}
	case 1: // AppendNew
		k := symStringN("arg", 1)
		e, err := o.AppendNew(k)
		ok := o != nil && m.find(k) < 0
		symReach("appendnew")
		symAssert((err == nil) == ok, "AppendNew must succeed exactly for a new key on a non-nil map")
		if ok {
			symAssert(e != nil && e.Name != nil && *e.Name == k, "AppendNew must return the new element with its key leaf set")
			m.keys = append(m.keys, k)
			m.elems = append(m.elems, e)
		} else {
			symAssert(e == nil, "failed AppendNew must return nil")
		}
	case 2: // Delete
		k := symStringN("arg", 1)
		got := o.Delete(k)
		i := m.find(k)
		symReach("delete")
		symAssert(got == (i >= 0), "Delete reports whether the key was present")
		if i >= 0 {
			m.keys = append(append([]string{}, m.keys[:i]...), m.keys[i+1:]...)
			m.elems = append(append([]*V_C_Ol{}, m.elems[:i]...), m.elems[i+1:]...)
		}
	case 3: // Get
		k := symStringN("arg", 1)
		got := o.Get(k)
		i := m.find(k)
		symReach("get")
		if i >= 0 {
			symAssert(got == m.elems[i], "Get returns the element stored under the key")
		} else {
			symAssert(got == nil, "Get returns nil for an absent key")
		}
	case 4: // Keys returns a copy in insertion order
		ks := o.Keys()
		symReach("keys")
		symAssert(len(ks) == len(m.keys), "Keys length")
		for i := range ks {
			symAssert(ks[i] == m.keys[i], "Keys order")
		}
		if len(ks) > 0 {
			// (a) writing to the result must not change the map
			ks[0] = "zz"
			// (b) a later Delete must not change the slice handed out earlier
			ks2 := o.Keys()
			snap := append([]string{}, ks2...)
			o.Delete(m.keys[0])
			for i := range ks2 {
				symAssert(ks2[i] == snap[i], "a Keys() result changed after a later Delete (not a copy)")
			}
			m.keys = m.keys[1:]
			m.elems = m.elems[1:]
		}
	case 5: // Values returns a fresh slice in insertion order
		vs := o.Values()
		symReach("values")
		symAssert(len(vs) == len(m.elems), "Values length")
		for i := range vs {
			symAssert(vs[i] == m.elems[i], "Values order")
		}
		if len(vs) > 0 {
			vs[0] = nil
		}
	case 6: // Len
		symReach("len")
		symAssert(o.Len() == len(m.keys), "Len")
	case 7: // parent helpers
		p := &V_C{Ol: o}
		k := symStringN("arg", 1)
		switch symChoose("pop", 4) {
		case 0:
			e, err := p.AppendNewOl(k)
			ok := m.find(k) < 0
			symAssert((err == nil) == ok, "parent AppendNew must succeed exactly for a new key")
			if ok {
				m.keys = append(m.keys, k)
				m.elems = append(m.elems, e)
			}
		case 1:
			kk := k
			v := &V_C_Ol{Name: &kk}
			err := p.AppendOl(v)
			ok := m.find(k) < 0
			symAssert((err == nil) == ok, "parent Append must succeed exactly for a new key")
			if ok {
				m.keys = append(m.keys, k)
				m.elems = append(m.elems, v)
			}
		case 2:
			got := p.GetOl(k)
			if i := m.find(k); i >= 0 {
				symAssert(got == m.elems[i], "parent Get")
			} else {
				symAssert(got == nil, "parent Get of an absent key")
			}
		case 3:
			got := p.DeleteOl(k)
			i := m.find(k)
			symAssert(got == (i >= 0), "parent Delete")
			if i >= 0 {
				m.keys = append(append([]string{}, m.keys[:i]...), m.keys[i+1:]...)
				m.elems = append(append([]*V_C_Ol{}, m.elems[:i]...), m.elems[i+1:]...)
			}
		}
		symReach("parent")
		// the parent helpers work on the list the parent already holds (also when it is
		// empty): a handle taken before stays the list
		if o != nil {
			symAssert(p.Ol == o, "a parent helper replaced the ordered map the parent already held")
			symAssert(p.GetOrCreateOlMap() == o, "GetOrCreate...Map must return the existing ordered map")
		}
		o = p.Ol
	}
	c15Check1(o, m)
}

// ---- two keys: V_C_Ol2_OrderedMap holding *V_C_Ol2 keyed by V_C_Ol2_Key{Name string, Id uint8}

type c15Model2 struct {
	keys  []V_C_Ol2_Key
	elems []*V_C_Ol2
}

func c15Key2(tag string) V_C_Ol2_Key {
	return V_C_Ol2_Key{Name: symStringN(tag+".a", 1), Id: uint8(symUint8(tag + ".b"))}
}

func c15Pre2(tag string) (*V_C_Ol2_OrderedMap, *c15Model2) {
	shape := symChoose(tag+".shape", 4)
	m := &c15Model2{}
	if shape == 0 {
		return nil, m
	}
	o := &V_C_Ol2_OrderedMap{}
	for i := 0; i < shape-1; i++ {
		k := c15Key2(fmt.Sprintf("%s.k%d", tag, i))
		for _, prev := range m.keys {
			symAssume(k != prev)
		}
		a, b := k.Name, k.Id
		e := &V_C_Ol2{Name: &a, Id: &b}
		o.keys = append(o.keys, k)
		if o.valueMap == nil {
			o.valueMap = map[V_C_Ol2_Key]*V_C_Ol2{}
		}
		o.valueMap[k] = e
		m.keys = append(m.keys, k)
		m.elems = append(m.elems, e)
	}
	return o, m
}

func (m *c15Model2) find(k V_C_Ol2_Key) int {
	for i, x := range m.keys {
		if x == k {
			return i
		}
	}
	return -1
}

func c15Check2(o *V_C_Ol2_OrderedMap, m *c15Model2) {
	if o == nil {
		symAssert(len(m.keys) == 0, "nil map must be empty")
		return
	}
	symAssert(len(o.keys) == len(m.keys), "number of keys differs from the model")
	symAssert(len(o.valueMap) == len(m.keys), "valueMap size differs from the number of keys (invariant)")
	for i := range m.keys {
		symAssert(o.keys[i] == m.keys[i], "key order differs from the insertion-ordered model")
		e := o.valueMap[m.keys[i]]
		symAssert(e != nil, "key without element (invariant)")
		symAssert(e == m.elems[i], "element differs from the model")
		symAssert(e.Name != nil && *e.Name == m.keys[i].Name && e.Id != nil && *e.Id == m.keys[i].Id, "element key leaves differ from its key (invariant)")
	}
}

// H_C15_multi_gen: two-key ordered map: Append (incl. nil / partly nil keys), AppendNew,
// Delete, Get.
//
//gosym:maxpaths=300000
func H_C15_multi_gen() {
	o, m := c15Pre2("o")
	k := c15Key2("arg")
	switch symChoose("op", 4) {
	case 0:
		var v *V_C_Ol2
		kind := symChoose("vkind", 5)
		a, b := k.Name, k.Id
		switch kind {
		case 0:
			v = nil
		case 1:
			v = &V_C_Ol2{}
		case 2:
			v = &V_C_Ol2{Name: &a}
		case 3:
			v = &V_C_Ol2{Id: &b}
		case 4:
			v = &V_C_Ol2{Name: &a, Id: &b}
		}
		err := o.Append(v)
		ok := o != nil && kind == 4 && m.find(k) < 0
		symReach("append")
		symAssert((err == nil) == ok, "Append must succeed exactly for a new, fully specified key on a non-nil map")
		if ok {
			m.keys = append(m.keys, k)
			m.elems = append(m.elems, v)
		}
	case 1:
		e, err := o.AppendNew(k.Id, k.Name)
		ok := o != nil && m.find(k) < 0
		symReach("appendnew")
		symAssert((err == nil) == ok, "AppendNew must succeed exactly for a new key on a non-nil map")
		if ok {
			m.keys = append(m.keys, k)
			m.elems = append(m.elems, e)
		}
	case 2:
		got := o.Delete(k)
		i := m.find(k)
		symReach("delete")
		symAssert(got == (i >= 0), "Delete reports whether the key was present")
		if i >= 0 {
			m.keys = append(append([]V_C_Ol2_Key{}, m.keys[:i]...), m.keys[i+1:]...)
			m.elems = append(append([]*V_C_Ol2{}, m.elems[:i]...), m.elems[i+1:]...)
		}
	case 3:
		got := o.Get(k)
		symReach("get")
		if i := m.find(k); i >= 0 {
			symAssert(got == m.elems[i], "Get returns the element stored under the key")
		} else {
			symAssert(got == nil, "Get returns nil for an absent key")
		}
	}
	c15Check2(o, m)
}
