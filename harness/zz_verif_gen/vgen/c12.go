//go:build verif

package vgen

import (
	"reflect"

	gpb "github.com/openconfig/gnmi/proto/gnmi"
	"github.com/openconfig/ygot/ytypes"
)

// H_C12_delete: DeleteNode removes exactly the addressed subtree: nothing is found at
// the path afterwards, leaves outside it keep their values, containers and list entries
// on the way that became empty are removed, and a second delete changes nothing.
//
//gosym:maxpaths=200000
func H_C12_delete() {
	d := &Device{C: &V_C{}}
	c := d.C
	// pre-tree: /c/cfg, /c/d/{du32,dstr}, /c/ks[a]/{val,sub/x}, /c/ks[b], /c/bin (zero-length), /c/ll
	cfgSet, du32Set, dstrSet := symBool("cfg"), symBool("du32"), symBool("dstr")
	if cfgSet {
		s := symStringN("cfgv", 1)
		c.Cfg = &s
	}
	// enum leaves (plain int64 fields in the GoStruct): one inside /c/d, one directly in /c
	dcolSet, colSet := symBool("dcol"), symBool("col")
	if colSet {
		c.Col = V_Colour_RED
	}
	if du32Set || dstrSet || dcolSet {
		c.D = &V_C_D{}
		if dcolSet {
			c.D.Dcol = V_Colour_GREEN
		}
		if du32Set {
			u := symUint32("du32v")
			c.D.Du32 = &u
		}
		if dstrSet {
			s := "ab"
			c.D.Dstr = &s
		}
	}
	ksA, ksB := symBool("ksa"), symBool("ksb")
	valSet, subSet := symBool("ksa.val"), symBool("ksa.sub")
	if ksA || ksB {
		c.Ks = map[string]*V_C_Ks{}
	}
	if ksA {
		k := "a"
		e := &V_C_Ks{Name: &k}
		if valSet {
			v := symUint16("ksa.valv")
			e.Val = &v
		}
		if subSet {
			x := symInt8("ksa.x")
			e.Sub = &V_C_Ks_Sub{X: &x}
		}
		c.Ks["a"] = e
	}
	if ksB {
		k := "b"
		c.Ks["b"] = &V_C_Ks{Name: &k}
	}
	if symBool("bin") {
		c.Bin = Binary{} // a set, zero-length binary leaf
	}
	if symBool("ll") {
		c.Ll = []string{"x"}
	}
	before := symSnapshot(d) // engine-made copy, independent of ygot.DeepCopy
	b := before.(*Device).C
	schema := SchemaTree["Device"]
	var p *gpb.Path
	target := symChoose("target", 8)
	switch target {
	case 0:
		p = c10Path(c10E("c"), c10E("cfg"))
	case 1:
		p = c10Path(c10E("c"), c10E("d"))
	case 2:
		p = c10Path(c10E("c"), c10E("d"), c10E("du32"))
	case 3:
		p = c10Path(c10E("c"), c10K("ks", "name", "a"))
	case 4:
		p = c10Path(c10E("c"), c10K("ks", "name", "a"), c10E("val"))
	case 5:
		p = c10Path(c10E("c"), c10E("ks"))
	case 6: // no entry is named "*": nothing may change
		p = c10Path(c10E("c"), c10K("ks", "name", "*"), c10E("val"))
	case 7:
		p = c10Path(c10E("c"), c10K("ks", "name", "*"))
	}
	// known finding: a path naming a whole (non-empty) list, without keys, is rejected
	symKnown("C12-whole-list", target == 5 && (ksA || ksB))
	err := ytypes.DeleteNode(schema, d, p)
	symReach("deleted")
	symAssert(err == nil, "DeleteNode fails on a valid path")
	// nothing at or below p
	nodes, gerr := ytypes.GetNode(schema, d, p)
	found := false
	if gerr == nil {
		for _, n := range nodes {
			if n.Data != nil && !reflect.ValueOf(n.Data).IsZero() {
				found = true
			}
		}
	}
	symAssert(!found, "GetNode still finds data at the deleted path")
	// reference model of what must remain (d.C may itself be pruned when it became empty)
	if d.C == nil {
		d.C = &V_C{}
	}
	c = d.C
	keep := func(cond bool, ok bool, what string) {
		if cond {
			symAssert(ok, what)
		}
	}
	keep(target != 0 && b.Cfg != nil, c.Cfg != nil && *c.Cfg == *b.Cfg, "/c/cfg must keep its value")
	keep(target == 0, c.Cfg == nil, "/c/cfg must be gone")
	keep(target != 1 && target != 2 && b.D != nil && b.D.Du32 != nil, c.D != nil && c.D.Du32 != nil && *c.D.Du32 == *b.D.Du32, "/c/d/du32 must keep its value")
	keep(target != 1 && b.D != nil && b.D.Dstr != nil, c.D != nil && c.D.Dstr != nil && *c.D.Dstr == "ab", "/c/d/dstr must keep its value")
	keep(target == 1, c.D == nil, "/c/d must be gone")
	keep(target == 2 && !(b.D != nil && b.D.Dstr != nil) && !dcolSet, c.D == nil, "/c/d must be removed once its last leaf is deleted")
	keep(target != 1 && dcolSet, c.D != nil && c.D.Dcol == V_Colour_GREEN, "an enum leaf next to the deleted leaf must keep its value")
	keep(colSet, c.Col == V_Colour_RED, "an enum leaf of a container on the way to the deleted path must keep its value")
	keep(target != 5 && b.Ks["b"] != nil, c.Ks["b"] != nil && *c.Ks["b"].Name == "b", "list entry b must stay")
	keep(target == 3 || target == 5, c.Ks["a"] == nil, "list entry a must be gone")
	keep(target == 5, len(c.Ks) == 0, "the whole list must be gone")
	if target == 4 && b.Ks["a"] != nil {
		e := c.Ks["a"]
		symAssert(e != nil && e.Name != nil && e.Val == nil, "deleting a leaf of an entry keeps the entry (its key leaf is still set)")
		keep(b.Ks["a"].Sub != nil, e != nil && e.Sub != nil && *e.Sub.X == *b.Ks["a"].Sub.X, "sibling container of the deleted leaf must stay")
	}
	keep(target >= 6 && b.Ks["a"] != nil, c.Ks["a"] != nil && c.Ks["a"].Name != nil && (b.Ks["a"].Val == nil) == (c.Ks["a"].Val == nil), "a literal '*' key names no entry: entry a must be untouched")
	keep((target < 3 || target >= 6) && b.Ks["a"] != nil && b.Ks["a"].Val != nil, c.Ks["a"] != nil && c.Ks["a"].Val != nil && *c.Ks["a"].Val == *b.Ks["a"].Val, "list entry a must keep its leaf")
	keep(b.Bin != nil, c.Bin != nil, "a set zero-length binary leaf outside the path must stay")
	keep(b.Ll != nil, len(c.Ll) == 1, "the leaf-list outside the path must stay")
	// idempotence
	snap := symSnapshot(d)
	err = ytypes.DeleteNode(schema, d, p)
	if d.C == nil {
		d.C = &V_C{}
	}
	symAssert(err == nil && reflect.DeepEqual(d, snap), "deleting twice must change nothing")
}
