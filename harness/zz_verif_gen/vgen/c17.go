//go:build verif

package vgen

import (
	"reflect"

	"github.com/openconfig/ygot/ygot"
	"github.com/openconfig/ygot/ytypes"
)

// c17Defined: the generated values of E_V_Colour (YANG value + 1, BLUE auto-numbered
// after GREEN) and their names, written out by hand from v.yang.
var c17Colours = []struct {
	v    E_V_Colour
	name string
}{{2, "RED"}, {6, "GREEN"}, {7, "BLUE"}}

// H_C17_render: every int64 value of an enumeration type renders to its YANG name,
// to nothing for UNSET (0) and to an error for an undefined value; the name parses
// back to the same value with and without a module prefix.
func H_C17_render() {
	symMapOrderAll()
	e := E_V_Colour(symInt64("e"))
	name, err := ygot.EnumName(e)
	want := ""
	defined := false
	for _, c := range c17Colours {
		if e == c.v {
			want, defined = c.name, true
		}
	}
	switch {
	case e == 0:
		symReach("unset")
		symAssert(err == nil && name == "", "the UNSET value must render to nothing")
	case defined:
		symReach("defined")
		symAssert(err == nil && name == want, "a defined value must render to its YANG name")
		back, perr := ytypes.StringToType(reflect.TypeOf(E_V_Colour(0)), name)
		symAssert(perr == nil, "a rendered name must parse")
		symAssert(back.Interface().(E_V_Colour) == e, "parsing the rendered name must give the value back")
		back2, perr2 := ytypes.StringToType(reflect.TypeOf(E_V_Colour(0)), "v:"+name)
		symAssert(perr2 == nil && back2.Interface().(E_V_Colour) == e, "parsing module:name must give the value back")
	default:
		symReach("undefined")
		symAssert(err != nil, "an undefined value must make rendering fail")
	}
}

// H_C17_identity: the same for an identityref type (names carry a defining module).
func H_C17_identity() {
	symMapOrderAll()
	e := E_V_BASE_ID(symInt64("e"))
	name, err := ygot.EnumName(e)
	switch {
	case e == 0:
		symAssert(err == nil && name == "", "the UNSET value must render to nothing")
	case e == V_BASE_ID_ID_A || e == V_BASE_ID_ID_B:
		symReach("defined")
		symAssert(err == nil, "a defined identity must render")
		symAssert((name == "ID_A") == (e == V_BASE_ID_ID_A) && (name == "ID_B") == (e == V_BASE_ID_ID_B), "identity name")
		back, perr := ytypes.StringToType(reflect.TypeOf(E_V_BASE_ID(0)), "v:"+name)
		symAssert(perr == nil && back.Interface().(E_V_BASE_ID) == e, "parsing module:identity must give the value back")
	default:
		symReach("undefined")
		symAssert(err != nil, "an undefined value must make rendering fail")
	}
}

// H_C17_parse: a string parses as an enumeration value only if it is one of the
// defined names, optionally with one module prefix; the value is the one so named.
//
//gosym:maxpaths=300000
func H_C17_parse() {
	symMapOrderAll()
	max := 5
	if symTier() > 0 {
		max = 6
	}
	s := symString("s", max)
	got, err := ytypes.StringToType(reflect.TypeOf(E_V_Colour(0)), s)
	// reference: strip at most one "prefix:" (a name with two or more colons is never valid here)
	bare := s
	colons := 0
	last := -1
	for i := 0; i < len(s); i++ {
		if s[i] == ':' {
			colons++
			last = i
		}
	}
	if colons == 1 {
		bare = s[last+1:]
	}
	var want E_V_Colour
	for _, c := range c17Colours {
		if bare == c.name {
			want = c.v
		}
	}
	symReach("parsed")
	if want == 0 {
		symAssert(err != nil, "a string that is not a defined name must be rejected")
	} else {
		symAssert(err == nil && got.Interface().(E_V_Colour) == want, "a defined name must parse to its value")
	}
}

// H_C17_odd: an enumeration with a negative explicit value and a name containing ':'.
func H_C17_odd() {
	symMapOrderAll()
	e := E_V_Odd(symInt64("e"))
	name, err := ygot.EnumName(e)
	switch {
	case e == 0:
		symAssert(err == nil && name == "", "the UNSET value must render to nothing")
	case e == V_Odd_LEVEL || e == V_Odd_1_COLON1:
		symReach("defined")
		symAssert(err == nil, "a defined value must render")
		symAssert((name == "LEVEL") == (e == V_Odd_LEVEL) && (name == "1:1") == (e == V_Odd_1_COLON1), "enum name")
		back, perr := ytypes.StringToType(reflect.TypeOf(E_V_Odd(0)), name)
		symAssert(perr == nil && back.Interface().(E_V_Odd) == e, "parsing the rendered name must give the value back")
	default:
		symReach("undefined")
		symAssert(err != nil, "an undefined value must make rendering fail")
	}
	// every defined member is a non-UNSET value
	symKnown("C17-negative-enum-value", true)
	back, perr := ytypes.StringToType(reflect.TypeOf(E_V_Odd(0)), "BEHIND")
	symAssert(perr == nil && back.Interface().(E_V_Odd) != 0, "a defined member (YANG value -1) is represented by the UNSET value 0")
}
