//go:build verif

package vgen

import "unicode/utf8"

// H_C07_leaves: Validate on a generated container accepts exactly the trees whose
// every leaf is in its type's value space (range, length + pattern, defined enum value).
//
//gosym:maxpaths=200000
func H_C07_leaves() {
	d := &V_C_D{}
	valid := true
	if symBool("set_du32") {
		v := symUint32("du32")
		d.Du32 = &v
		valid = symAnd(valid, symAnd(v >= 1, v <= 100))
	}
	if symBool("set_dstr") {
		s := symString("dstr", 3)
		d.Dstr = &s
		ok := len(s) >= 1
		for i := 0; i < len(s); i++ {
			ok = symAnd(ok, symAnd(s[i] >= 'a', s[i] <= 'z'))
		}
		valid = symAnd(valid, ok)
	}
	if symBool("set_di8") {
		v := symInt8("di8")
		d.Di8 = &v
	}
	col := E_V_Colour(symInt64("dcol"))
	d.Dcol = col
	colOK := symOr(col == 0, symOr(col == V_Colour_RED, symOr(col == V_Colour_GREEN, col == V_Colour_BLUE)))
	symKnown("C07-undefined-enum", !colOK)
	valid = symAnd(valid, colOK)
	err := d.ΛValidate()
	symReach("validated")
	symAssert((err == nil) == valid, "Validate differs from: every leaf value lies in its type's value space")
}

// H_C07_structure: structural rules on /v/c: list map keys must equal the entries' key
// leaves, configuration leaf-lists hold unique values within min/max-elements, lists
// respect max-elements, at most one case of a choice is populated, union values fit a
// member type.
//
//gosym:maxpaths=300000
func H_C07_structure() {
	c := &V_C{}
	valid := true
	switch symChoose("aspect", 5) {
	case 0: // list keys vs key leaves (single string key)
		n := symChoose("entries", 3)
		if n > 0 {
			c.Ks = map[string]*V_C_Ks{}
		}
		for i := 0; i < n; i++ {
			mk := symStringN(symName("mk", i), 1)
			lk := symStringN(symName("lk", i), 1)
			if _, dup := c.Ks[mk]; dup {
				continue
			}
			e := &V_C_Ks{}
			if symBool(symName("haskey", i)) {
				e.Name = &lk
				valid = symAnd(valid, mk == lk)
			} else {
				valid = false // key leaf missing
			}
			c.Ks[mk] = e
		}
		symReach("keys")
	case 1: // struct key (string, enum)
		mk := c34Key("mk")
		lk := c34Key("lk")
		colOK := symOr(lk.Col == V_Colour_RED, symOr(lk.Col == V_Colour_GREEN, lk.Col == V_Colour_BLUE))
		symAssume(colOK)
		n := lk.Name
		c.Km = map[V_C_Km_Key]*V_C_Km{mk: {Name: &n, Col: lk.Col}}
		valid = symAnd(mk.Name == lk.Name, mk.Col == lk.Col)
		if symBool("nil_key_leaf") {
			c.Km[mk].Name = nil // a key leaf that is not set can never equal the map key
			valid = false
		}
		symReach("structkeys")
	case 2: // leaf-list: unique values, 0..max-elements 2, each 1..3 characters
		n := symChoose("n", 4)
		for i := 0; i < n; i++ {
			s := symStringN(symName("ll", i), 1)
			for _, prev := range c.Ll {
				symKnown("C07-leaflist-duplicates", s == prev)
				valid = symAnd(valid, s != prev)
			}
			c.Ll = append(c.Ll, s)
		}
		symKnown("C07-leaflist-max-elements", n > 2)
		valid = symAnd(valid, n <= 2)
		symReach("leaflist")
	case 3: // list max-elements 2
		n := symChoose("n", 4)
		c.Lm = map[string]*V_C_Lm{}
		for i := 0; i < n; i++ {
			k := string(rune('a' + i))
			kk := k
			c.Lm[k] = &V_C_Lm{K: &kk}
		}
		valid = n <= 2
		symReach("maxelements")
	case 4: // choice + union
		d := &V_C_D{}
		c.D = d
		one, two := symBool("case_one"), symBool("case_two")
		if one {
			v := symUint8("c1")
			d.C1 = &v
		}
		if two {
			s := symStringN("c2", 1)
			d.C2 = &s
		}
		valid = !(one && two)
		switch symChoose("union", 4) {
		case 1:
			u := symUint16("un16")
			c.Un = UnionUint16(u)
			valid = symAnd(valid, symAnd(u >= 10, u <= 20))
		case 2:
			u := symUint32("un2")
			c.Un2 = &u
			valid = symAnd(valid, symOr(symAnd(u >= 1, u <= 10), symAnd(u >= 100, u <= 200)))
			fallthrough
		case 3:
			s := symString("unstr", 3)
			symAssume(utf8.ValidString(s))
			chars := 0
			for i := 0; i < len(s); i++ {
				if s[i]&0xC0 != 0x80 {
					chars++
				}
			}
			c.Un = UnionString(s)
			valid = symAnd(valid, chars == 2)
		}
		symReach("choice")
	}
	err := c.ΛValidate()
	symAssert((err == nil) == valid, "Validate differs from schema validity")
}

func symName(p string, i int) string { return p + string(rune('0'+i)) }
