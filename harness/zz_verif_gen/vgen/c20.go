//go:build verif

package vgen

import (
	"strings"

	gpb "github.com/openconfig/gnmi/proto/gnmi"
	"github.com/openconfig/ygot/ytypes"
)

// The harnesses of this file have no assertion of their own beyond "the call returned":
// an escaping Go panic on any explored path is reported by the engine as the violation
// (C20: malformed input yields errors, never panics).

// c20Fields: children of /c addressed by the malformed inputs, each with the names
// used for members of nested objects / list keys.
var c20Fields = []struct {
	name string
	key  string
	sub  []string
}{
	{"ks", "name", []string{"name", "val", "tags", "sub", "x"}},
	{"ki", "id", []string{"id", "val"}},
	{"ku", "k", []string{"k", "val"}},
	{"kb", "flag", []string{"flag", "num"}},
	{"ol", "name", []string{"name", "val", "oc", "y"}},
	{"d", "", []string{"du32", "ddec", "dun", "dl", "k"}},
	{"uc", "", []string{"u"}},
	{"st", "", []string{"counter", "ul", "ull", "name"}},
	{"ll", "", nil},
	{"un", "", nil},
	{"unb", "", nil},
	{"bin", "", nil},
	{"em", "", nil},
	{"col", "", nil},
	{"idr", "", nil},
	{"pc", "", []string{"x"}},
	{"bogus", "", nil},
}

var c20Numbers = []float64{1, -1, 1.5, 1e19, 0, 255, 256, 65536, 4294967296, -1e19, 1e300}

// c20Shape returns an arbitrary JSON value (as decoded by encoding/json) of nesting
// depth <= depth: null, bool, number, string, array of 0..width values, object of
// 0..width members named from sub (or an unknown name). In arrays and objects the
// first member is arbitrary (of depth-1); a second array element is one of three
// fixed scalars, a second object member has any name from sub and the value "x".
func c20Shape(tag string, depth, width int, sub []string) interface{} {
	if depth < 0 {
		return []interface{}{nil, "x", 1.0}[symChoose(tag+"more", 3)]
	}
	kinds := 4
	if depth > 0 {
		kinds = 6
	}
	switch symChoose(tag+"kind", kinds) {
	case 0:
		return nil
	case 1:
		return symBool(tag + "b")
	case 2:
		nums := c20Numbers
		if strings.Count(tag, ".") > 1 {
			nums = nums[:4] // nested positions: 1, -1, 1.5, 1e19
		}
		return nums[symChoose(tag+"num", len(nums))]
	case 3:
		return symString(tag+"s", 2)
	case 4:
		n := symChoose(tag+"len", width+1)
		arr := []interface{}{}
		for i := 0; i < n; i++ {
			d := depth - 1
			if i > 0 {
				d = -1
			}
			arr = append(arr, c20Shape(tag+"e.", d, width, sub))
		}
		return arr
	}
	n := symChoose(tag+"members", width+1)
	obj := map[string]interface{}{}
	for i := 0; i < n; i++ {
		name := "bogus"
		if k := symChoose(tag+"name", len(sub)+1); k < len(sub) {
			name = sub[k]
		}
		if i == 0 && symBool(tag+"qualified") {
			name = "v:" + name
		}
		if i > 0 {
			obj[name] = "x"
			continue
		}
		obj[name] = c20Shape(tag+"m.", depth-1, width, sub)
	}
	return obj
}

func c20Opts() []ytypes.UnmarshalOpt {
	switch symChoose("opts", 3) {
	case 1:
		return []ytypes.UnmarshalOpt{&ytypes.IgnoreExtraFields{}}
	case 2:
		return []ytypes.UnmarshalOpt{&ytypes.BestEffortUnmarshal{}}
	}
	return nil
}

// H_C20_unmarshal_tree: ytypes.Unmarshal of {"c": {<field>: <JSON value of depth <= 1>}}
// into the root struct returns normally: every child of /c (leaf, leaf-list, list,
// container, unknown) against null, bool, number, string, arrays and objects of scalars.
//
//gosym:maxpaths=400000
func H_C20_unmarshal_tree() {
	f := c20Fields[symChoose("field", len(c20Fields))]
	name := f.name
	if symBool("qualified") {
		name = "v:" + name
	}
	tree := map[string]interface{}{"c": map[string]interface{}{name: c20Shape("v.", 1, 2, f.sub)}}
	d := &Device{}
	_ = ytypes.Unmarshal(SchemaTree["Device"], d, tree, c20Opts()...)
	symReach("returned")
}

// H_C20_unmarshal_nested: as above for the list and container children with values of
// depth 2 (arrays of objects, objects of arrays, ...), one arbitrary member per level
// (quick) or two (thorough).
//
//gosym:maxpaths=400000
func H_C20_unmarshal_nested() {
	var nested []int
	for i, f := range c20Fields {
		if len(f.sub) > 0 {
			nested = append(nested, i)
		}
	}
	f := c20Fields[nested[symChoose("field", len(nested))]]
	tree := map[string]interface{}{"c": map[string]interface{}{f.name: c20Shape("v.", 2, 1+symTier(), f.sub)}}
	var opts []ytypes.UnmarshalOpt
	if symBool("ignoreExtra") {
		opts = append(opts, &ytypes.IgnoreExtraFields{})
	}
	d := &Device{}
	_ = ytypes.Unmarshal(SchemaTree["Device"], d, tree, opts...)
	symReach("returned")
}

// H_C20_unmarshal_root: the document itself (not only a field) is an arbitrary value.
//
//gosym:maxpaths=400000
func H_C20_unmarshal_root() {
	if symBool("device") {
		d := &Device{}
		_ = ytypes.Unmarshal(SchemaTree["Device"], d, c20Shape("r.", 1, 2, []string{"c"}))
	} else {
		c := &V_C{}
		_ = ytypes.Unmarshal(SchemaTree["V_C"], c, c20Shape("c.", 1, 2, []string{"ks", "ll", "d"}))
	}
	symReach("returned")
}

var c20JSONDocs = []string{`{}`, `[]`, `"x"`, `1`, `null`, `{"name":"a"}`, `[{"name":1}]`, `{"name":["a"]}`, `[[1]]`, `{`, ``, `{"ks":[1]}`, `{"ks":{"a":1}}`, `{"tags":[{"a":1},2]}`}

// c20TypedValue returns an arbitrary (possibly malformed) gNMI TypedValue: nil, no
// oneof set, every oneof kind (symbolic strings/ints/bytes, concrete floats, decimals
// with precision 0..2^32-1 or a nil Decimal64, concrete JSON documents), leaf-lists of
// 0..2 elements (first arbitrary non-array value, second one of three fixed values) or
// with a nil ScalarArray.
func c20TypedValue(tag string, depth int) *gpb.TypedValue {
	if depth < 0 {
		return []*gpb.TypedValue{nil, {Value: &gpb.TypedValue_StringVal{StringVal: "x"}}, {Value: &gpb.TypedValue_UintVal{UintVal: 1}}}[symChoose(tag+"more", 3)]
	}
	kinds := 14
	if depth > 0 {
		kinds = 15
	}
	switch symChoose(tag+"kind", kinds) {
	case 0:
		return nil
	case 1:
		return &gpb.TypedValue{}
	case 2:
		return &gpb.TypedValue{Value: &gpb.TypedValue_StringVal{StringVal: symString(tag+"s", 2)}}
	case 3:
		return &gpb.TypedValue{Value: &gpb.TypedValue_IntVal{IntVal: symInt64(tag + "i")}}
	case 4:
		return &gpb.TypedValue{Value: &gpb.TypedValue_UintVal{UintVal: symUint64(tag + "u")}}
	case 5:
		return &gpb.TypedValue{Value: &gpb.TypedValue_BoolVal{BoolVal: symBool(tag + "b")}}
	case 6:
		return &gpb.TypedValue{Value: &gpb.TypedValue_BytesVal{BytesVal: symBytes(tag+"bytes", 2)}}
	case 7:
		return &gpb.TypedValue{Value: &gpb.TypedValue_DoubleVal{DoubleVal: c20Numbers[symChoose(tag+"dbl", 5)]}}
	case 8:
		return &gpb.TypedValue{Value: &gpb.TypedValue_FloatVal{FloatVal: float32(c20Numbers[symChoose(tag+"flt", 4)])}}
	case 9:
		var dec *gpb.Decimal64
		if !symBool(tag + "nilDecimal") {
			dec = &gpb.Decimal64{
				Digits:    []int64{123, -1, -9223372036854775808}[symChoose(tag+"digits", 3)],
				// (precisions near 2^32 make big.Int.Exp run for minutes natively too: a
				// resource problem rather than a panic, outside this harness)
				Precision: []uint32{0, 1, 2, 18, 19, 20, 64, 400}[symChoose(tag+"precision", 8)],
			}
		}
		return &gpb.TypedValue{Value: &gpb.TypedValue_DecimalVal{DecimalVal: dec}}
	case 10:
		return &gpb.TypedValue{Value: &gpb.TypedValue_JsonIetfVal{JsonIetfVal: []byte(c20JSONDocs[symChoose(tag+"doc", len(c20JSONDocs))])}}
	case 11:
		return &gpb.TypedValue{Value: &gpb.TypedValue_JsonVal{JsonVal: []byte(c20JSONDocs[symChoose(tag+"doc", 3)])}}
	case 12:
		return &gpb.TypedValue{Value: &gpb.TypedValue_AsciiVal{AsciiVal: symString(tag+"ascii", 1)}}
	case 13:
		if symBool(tag + "anyNil") {
			return &gpb.TypedValue{Value: &gpb.TypedValue_AnyVal{}}
		}
		return &gpb.TypedValue{Value: &gpb.TypedValue_ProtoBytes{ProtoBytes: symBytes(tag+"pb", 1)}}
	}
	var ll *gpb.ScalarArray
	if !symBool(tag + "nilArray") {
		ll = &gpb.ScalarArray{}
		n := symChoose(tag+"len", 3)
		for i := 0; i < n; i++ {
			d := depth - 1
			if i > 0 {
				d = -1
			}
			ll.Element = append(ll.Element, c20TypedValue(tag+"e.", d))
		}
	}
	return &gpb.TypedValue{Value: &gpb.TypedValue_LeaflistVal{LeaflistVal: ll}}
}

// c20Path returns an arbitrary path of 0..3 elements below the root: names from the
// vocabulary (or unknown/empty), 0..2 keys with known/unknown names and symbolic values.
func c20Path(tag string) *gpb.Path {
	if symBool(tag + "nilPath") {
		return nil
	}
	p := &gpb.Path{}
	if symBool(tag + "origin") {
		p.Origin = "x"
	}
	n := symChoose(tag+"elems", 4)
	if n == 0 {
		return p
	}
	first := []string{"c", "bogus", ""}[symChoose(tag+"first", 3)]
	p.Elem = append(p.Elem, &gpb.PathElem{Name: first})
	if n == 1 {
		return p
	}
	f := c20Fields[symChoose(tag+"field", len(c20Fields))]
	e := &gpb.PathElem{Name: f.name}
	switch symChoose(tag+"keys", 4) {
	case 1:
		kn := f.key
		if kn == "" || symBool(tag+"wrongKeyName") {
			kn = "bogus"
		}
		e.Key = map[string]string{kn: symString(tag+"kv", 2)}
	case 2:
		e.Key = map[string]string{f.key: symString(tag+"kv", 1), "bogus": "x"}
	case 3:
		e.Key = map[string]string{}
	}
	p.Elem = append(p.Elem, e)
	if n == 2 {
		return p
	}
	third := "bogus"
	if k := symChoose(tag+"third", len(f.sub)+1); k < len(f.sub) {
		third = f.sub[k]
	}
	p.Elem = append(p.Elem, &gpb.PathElem{Name: third})
	return p
}

// c20GoodPath returns a well-formed path to a child of /c: the field itself, for
// lists also field[key=<symbolic 0..1 bytes>] and field[key=a]/<member>, for
// containers field/<member>.
func c20GoodPath(tag string) *gpb.Path {
	f := c20Fields[symChoose(tag+"field", len(c20Fields))]
	p := &gpb.Path{Elem: []*gpb.PathElem{{Name: "c"}, {Name: f.name}}}
	if len(f.sub) == 0 {
		return p
	}
	form := symChoose(tag+"form", 3)
	if form == 0 {
		return p
	}
	if f.key != "" {
		kv := "a"
		if form == 1 {
			kv = symString(tag+"kv", 1)
		}
		p.Elem[1].Key = map[string]string{f.key: kv}
		if form == 1 {
			return p
		}
	}
	p.Elem = append(p.Elem, &gpb.PathElem{Name: f.sub[symChoose(tag+"member", len(f.sub))]})
	return p
}

// c20Tree: a small populated tree so that lookups reach existing entries too.
func c20Tree() *Device {
	name, val := "a", uint16(7)
	id := int64(5)
	x := int8(1)
	d := &Device{C: &V_C{
		Ks: map[string]*V_C_Ks{"a": {Name: &name, Val: &val, Tags: []string{"t"}, Sub: &V_C_Ks_Sub{X: &x}}},
		Ki: map[int64]*V_C_Ki{5: {Id: &id}},
		Ll: []string{"x"},
	}}
	return d
}

func c20SetOpts() []ytypes.SetNodeOpt {
	// quick: the first two combinations; thorough: all four
	switch symChoose("setopts", 2+2*symTier()) {
	case 0:
		return []ytypes.SetNodeOpt{&ytypes.InitMissingElements{}}
	case 1:
		return []ytypes.SetNodeOpt{&ytypes.InitMissingElements{}, &ytypes.TolerateJSONInconsistencies{}, &ytypes.IgnoreExtraFields{}}
	case 2:
		return []ytypes.SetNodeOpt{&ytypes.InitMissingElements{}, &ytypes.TolerateJSONInconsistencies{}}
	}
	return nil
}

// H_C20_setnode_values: SetNode of an arbitrary TypedValue at every well-formed path.
//
//gosym:maxpaths=400000
func H_C20_setnode_values() {
	d := c20Tree()
	p := c20GoodPath("p.")
	tv := c20TypedValue("tv.", 1)
	_ = ytypes.SetNode(SchemaTree["Device"], d, p, tv, c20SetOpts()...)
	symReach("returned")
}

// H_C20_setnode_paths: SetNode at an arbitrary (possibly malformed) path.
//
//gosym:maxpaths=400000
func H_C20_setnode_paths() {
	d := c20Tree()
	if symBool("emptyTree") {
		d = &Device{}
	}
	p := c20Path("p.")
	tv := []*gpb.TypedValue{
		nil,
		{Value: &gpb.TypedValue_StringVal{StringVal: "x"}},
		{Value: &gpb.TypedValue_UintVal{UintVal: 1}},
		{Value: &gpb.TypedValue_JsonIetfVal{JsonIetfVal: []byte(`{}`)}},
		{Value: &gpb.TypedValue_JsonIetfVal{JsonIetfVal: []byte(`{"name":"a"}`)}},
	}[symChoose("tv", 5)]
	var opts []ytypes.SetNodeOpt
	if symBool("init") {
		opts = append(opts, &ytypes.InitMissingElements{})
	}
	_ = ytypes.SetNode(SchemaTree["Device"], d, p, tv, opts...)
	symReach("returned")
}

// H_C20_getnode_deletenode: GetNode (every option) and DeleteNode at an arbitrary path.
//
//gosym:maxpaths=400000
func H_C20_getnode_deletenode() {
	d := c20Tree()
	if symBool("emptyTree") {
		d = &Device{}
	}
	p := c20Path("p.")
	schema := SchemaTree["Device"]
	if symBool("delete") {
		_ = ytypes.DeleteNode(schema, d, p)
		symReach("delete returned")
		return
	}
	var gopts []ytypes.GetNodeOpt
	switch symChoose("getopts", 5) {
	case 1:
		gopts = append(gopts, &ytypes.GetPartialKeyMatch{})
	case 2:
		gopts = append(gopts, &ytypes.GetHandleWildcards{})
	case 3:
		gopts = append(gopts, &ytypes.GetTolerateNil{})
	case 4:
		gopts = append(gopts, &ytypes.PreferShadowPath{})
	}
	_, _ = ytypes.GetNode(schema, d, p, gopts...)
	symReach("get returned")
}

// H_C20_setnode_nonproto: SetNode with values that are not TypedValues.
func H_C20_setnode_nonproto() {
	d := c20Tree()
	p := c20Path("p.")
	var v interface{}
	switch symChoose("v", 5) {
	case 1:
		v = symString("s", 1)
	case 2:
		v = (*gpb.TypedValue)(nil)
	case 3:
		v = &V_C_Ks{}
	case 4:
		v = []string{"x"}
	}
	_ = ytypes.SetNode(SchemaTree["Device"], d, p, v)
	symReach("returned")
}

// c20ReqPath: nil, empty, a leaf, a leaf inside a list entry (symbolic 0..1-byte key),
// a container, an unknown node, a wrong key name; relative to the prefix when rel.
func c20ReqPath(tag string, rel bool) *gpb.Path {
	var p *gpb.Path
	switch symChoose(tag+"path", 7) {
	case 0:
		return nil
	case 1:
		return &gpb.Path{}
	case 2:
		p = &gpb.Path{Elem: []*gpb.PathElem{{Name: "c"}, {Name: "cfg"}}}
	case 3:
		p = &gpb.Path{Elem: []*gpb.PathElem{{Name: "c"}, {Name: "ks", Key: map[string]string{"name": symString(tag+"k", 1)}}, {Name: "val"}}}
	case 4:
		p = &gpb.Path{Elem: []*gpb.PathElem{{Name: "c"}, {Name: "d"}}}
	case 5:
		p = &gpb.Path{Elem: []*gpb.PathElem{{Name: "c"}, {Name: "bogus"}}}
	default:
		p = &gpb.Path{Elem: []*gpb.PathElem{{Name: "c"}, {Name: "ks", Key: map[string]string{"bogus": "a"}}}}
	}
	if rel {
		p.Elem = p.Elem[1:]
	}
	return p
}

func c20ReqValue(tag string) *gpb.TypedValue {
	switch symChoose(tag+"val", 8) {
	case 0:
		return nil
	case 1:
		return &gpb.TypedValue{}
	case 2:
		return &gpb.TypedValue{Value: &gpb.TypedValue_StringVal{StringVal: symString(tag+"s", 1)}}
	case 3:
		return &gpb.TypedValue{Value: &gpb.TypedValue_UintVal{UintVal: symUint64(tag + "u")}}
	case 4:
		return &gpb.TypedValue{Value: &gpb.TypedValue_JsonIetfVal{JsonIetfVal: []byte(`{}`)}}
	case 5:
		return &gpb.TypedValue{Value: &gpb.TypedValue_JsonIetfVal{JsonIetfVal: []byte(`{"du32":1}`)}}
	case 6:
		return &gpb.TypedValue{Value: &gpb.TypedValue_JsonIetfVal{JsonIetfVal: []byte(`{`)}}
	}
	return &gpb.TypedValue{Value: &gpb.TypedValue_LeaflistVal{}}
}

// H_C20_setrequest: UnmarshalSetRequest and UnmarshalNotifications with arbitrary
// (possibly malformed) messages return normally: nil request, unset/empty/unknown
// prefix, 0..2 entries among delete/replace/update with unset paths and values.
// (nil entries inside repeated fields are outside the domain: protobuf decoding never
// produces them; unset singular fields - Path, Val, Prefix - are inside.)
//
//gosym:maxpaths=400000
func H_C20_setrequest() {
	schema, err := Schema()
	symAssume(err == nil)
	schema.Root = c20Tree()
	opts := c20Opts()
	var prefix *gpb.Path
	rel := false
	switch symChoose("prefix", 4) {
	case 1:
		prefix = &gpb.Path{}
	case 2:
		prefix = &gpb.Path{Elem: []*gpb.PathElem{{Name: "c"}}}
		rel = true
	case 3:
		prefix = &gpb.Path{Elem: []*gpb.PathElem{{Name: "bogus"}}}
	}
	var dels []*gpb.Path
	var upds, repls []*gpb.Update
	// one arbitrary entry, optionally followed by a fixed well-formed update
	switch symChoose("entry", 4) {
	case 1:
		dels = append(dels, c20ReqPath("d.", rel))
	case 2:
		upds = append(upds, &gpb.Update{Path: c20ReqPath("u.", rel), Val: c20ReqValue("u.")})
	case 3:
		repls = append(repls, &gpb.Update{Path: c20ReqPath("r.", rel), Val: c20ReqValue("r.")})
	}
	if symBool("second") {
		p := &gpb.Path{Elem: []*gpb.PathElem{{Name: "c"}, {Name: "cfg"}}}
		if rel {
			p.Elem = p.Elem[1:]
		}
		upds = append(upds, &gpb.Update{Path: p, Val: &gpb.TypedValue{Value: &gpb.TypedValue_StringVal{StringVal: "x"}}})
	}
	if symBool("notifications") {
		n := &gpb.Notification{Prefix: prefix, Delete: dels, Update: upds, Atomic: symBool("atomic")}
		_ = ytypes.UnmarshalNotifications(schema, []*gpb.Notification{n}, opts...)
		symReach("notifications returned")
		return
	}
	var req *gpb.SetRequest
	if !symBool("nilRequest") {
		req = &gpb.SetRequest{Prefix: prefix, Delete: dels, Update: upds, Replace: repls}
	}
	_ = ytypes.UnmarshalSetRequest(schema, req, opts...)
	symReach("setrequest returned")
}
