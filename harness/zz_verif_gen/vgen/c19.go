//go:build verif

package vgen

import (
	"github.com/openconfig/ygot/ygot"
)

func c19Key(appendMod bool, name string) string {
	if appendMod {
		return "v:" + name // rendered at the top level: always module-qualified
	}
	return name
}

// H_C19_scalars: RFC 7951 encoding of every scalar leaf type of a container rendered
// with ConstructIETFJSON: 8/16/32-bit integers and booleans as JSON numbers/booleans
// (Go values of the same type), decimal64 as a string in decimal notation without
// exponent, enumerations by name, identityrefs as module:name when module names are
// appended, member names module-qualified at the top level when requested.
func H_C19_scalars() {
	appendMod := symBool("append_module")
	cfg := &ygot.RFC7951JSONConfig{AppendModuleName: appendMod}
	d := &V_C_D{}
	var u32 uint32
	var i8 int8
	var b bool
	var dec float64
	var str string
	if symBool("set_du32") {
		u32 = symUint32("du32")
		d.Du32 = &u32
	}
	if symBool("set_di8") {
		i8 = symInt8("di8")
		d.Di8 = &i8
	}
	if symBool("set_dbool") {
		b = symBool("dbool")
		d.Dbool = &b
	}
	if symBool("set_ddec") {
		dec = symFloat64("ddec")
		symAssume(dec == dec && dec-dec == 0) // finite
		d.Ddec = &dec
	}
	if symBool("set_dstr") {
		str = symString("dstr", 2)
		d.Dstr = &str
	}
	col := E_V_Colour(symChoose("dcol", 3)) // 0 = unset, 1 = undefined?, 2 = RED
	if col == 1 {
		col = V_Colour_GREEN
	}
	d.Dcol = col
	idr := E_V_BASE_ID(symChoose("did", 3)) // 0 unset, 1 ID_A, 2 ID_B
	d.Did = idr
	j, err := ygot.ConstructIETFJSON(d, cfg)
	symReach("rendered")
	symAssert(err == nil, "ConstructIETFJSON fails on a valid tree")
	n := 0
	if d.Du32 != nil {
		n++
		v, ok := j[c19Key(appendMod, "du32")].(float64) // JSON numbers are float64 after normalisation
		symAssert(ok && v == float64(u32), "uint32 leaf must be a JSON number with its value")
	}
	if d.Di8 != nil {
		n++
		v, ok := j[c19Key(appendMod, "di8")].(float64)
		symAssert(ok && v == float64(i8), "int8 leaf must be a JSON number with its value")
	}
	if d.Dbool != nil {
		n++
		v, ok := j[c19Key(appendMod, "dbool")].(bool)
		symAssert(ok && v == b, "boolean leaf must be a JSON boolean")
	}
	if d.Ddec != nil {
		n++
		v, ok := j[c19Key(appendMod, "ddec")].(string)
		symAssert(ok, "decimal64 leaf must be a JSON string")
		symAssert(symDecimalLexical(v), "decimal64 must be rendered in decimal notation without exponent")
	}
	if d.Dstr != nil {
		n++
		v, ok := j[c19Key(appendMod, "dstr")].(string)
		symAssert(ok && v == str, "string leaf must be a JSON string with its value")
	}
	if col != 0 {
		n++
		v, ok := j[c19Key(appendMod, "dcol")].(string)
		want := "RED"
		if col == V_Colour_GREEN {
			want = "GREEN"
		}
		symAssert(ok && v == want, "enumeration leaf must be rendered by name (no module prefix)")
	}
	if idr != 0 {
		n++
		v, ok := j[c19Key(appendMod, "did")].(string)
		want := "ID_A"
		if idr == V_BASE_ID_ID_B {
			want = "ID_B"
		}
		if appendMod {
			want = "v:" + want
		}
		symAssert(ok && v == want, "identityref must be module:identity exactly when module names are appended")
	}
	symAssert(len(j) == n, "exactly the set leaves are rendered")
}

// H_C19_wide: int64 / uint64 leaves are JSON strings of decimal digits; nested members
// carry no module prefix when their module equals the parent's.
func H_C19_wide() {
	appendMod := symBool("append_module")
	cfg := &ygot.RFC7951JSONConfig{AppendModuleName: appendMod}
	id := symInt64("id")
	cnt := symUint64("counter")
	c := &V_C{Ki: map[int64]*V_C_Ki{id: {Id: &id}}, St: &V_C_St{Counter: &cnt}}
	j, err := ygot.ConstructIETFJSON(c, cfg)
	symReach("rendered")
	symAssert(err == nil, "ConstructIETFJSON fails on a valid tree")
	st, ok := j[c19Key(appendMod, "st")].(map[string]interface{})
	symAssert(ok, "container member")
	cs, ok := st["counter"].(string) // same module as the parent: never prefixed
	symAssert(ok, "uint64 leaf must be a JSON string; nested member must not be module-qualified")
	symAssert(symDecimalIs(cs, cnt, false), "uint64 leaf must be its decimal digits")
	ki, ok := j[c19Key(appendMod, "ki")].([]interface{})
	symAssert(ok && len(ki) == 1, "keyed list must be a JSON array of its entries")
	e, ok := ki[0].(map[string]interface{})
	symAssert(ok, "list entry must be a JSON object")
	is, ok := e["id"].(string)
	symAssert(ok, "int64 leaf must be a JSON string")
	symAssert(symDecimalIs(is, uint64(id), true), "int64 leaf must be its decimal digits")
}
