//go:build verif

package vgen

import (
	"reflect"

	gpb "github.com/openconfig/gnmi/proto/gnmi"
	"github.com/openconfig/ygot/ygot"
	"github.com/openconfig/ygot/ytypes"
)

// c03Tree: /c with leaf cfg, leaf-list ll (0..1 values), list ks with entries "a" and a
// symbolic-key entry, each present or absent, symbolic values.
func c03Tree(tag string) *Device {
	c := &V_C{}
	if symBool(tag + ".cfg") {
		s := c01S(tag+".cfgv", 1)
		c.Cfg = &s
	}
	if symBool(tag + ".ll") {
		c.Ll = []string{c01S(tag+".llv", 1)}
	}
	if symBool(tag + ".ksa") {
		k := "a"
		v := symUint16(tag + ".ksav")
		c.Ks = map[string]*V_C_Ks{"a": {Name: &k, Val: &v}}
	}
	if symBool(tag + ".ksk") {
		k := c01S(tag+".k", 1)
		symAssume(k != "a")
		kk := k
		if c.Ks == nil {
			c.Ks = map[string]*V_C_Ks{}
		}
		c.Ks[k] = &V_C_Ks{Name: &kk}
	}
	return &Device{C: c}
}

func c03Norm(d *Device) {
	if d.C == nil {
		d.C = &V_C{}
	}
	if len(d.C.Ks) == 0 {
		d.C.Ks = nil
	}
	if len(d.C.Ll) == 0 {
		d.C.Ll = nil
	}
}

// H_C03_diff: applying Diff(a, b) to a copy of a gives b; every update names a leaf
// that is new or different, every delete a leaf of a that b lacks; Diff(a, a) is empty;
// IgnoreAdditions omits exactly the leaves new in b.
//
//gosym:maxpaths=300000
func H_C03_diff() {
	a, b := c03Tree("a"), c03Tree("b")
	n, err := ygot.Diff(a, b)
	symReach("diffed")
	symAssert(err == nil, "Diff fails on valid trees")
	backI := symSnapshot(a) // engine-made copy, independent of ygot.DeepCopy
	back := backI.(*Device)
	schema := &ytypes.Schema{Root: back, SchemaTree: SchemaTree, Unmarshal: Unmarshal}
	err = ytypes.UnmarshalNotifications(schema, []*gpb.Notification{n})
	symAssert(err == nil, "the notification Diff produced cannot be applied")
	got := schema.Root.(*Device)
	c03Norm(got)
	c03Norm(b)
	symAssert(reflect.DeepEqual(got, b), "applying Diff(a, b) to a does not give b")
	// minimality: number of updates/deletes against a leaf-level reference
	if reflect.DeepEqual(a, b) {
		symAssert(len(n.Update) == 0 && len(n.Delete) == 0, "Diff of equal trees must be empty")
	}
	same, _ := ygot.Diff(a, a)
	symAssert(len(same.Update) == 0 && len(same.Delete) == 0, "Diff(a, a) must be empty")
	// IgnoreAdditions: applying it to a leaves a's leaves that b also sets untouched or
	// updated, removes those b lacks, and adds nothing
	ni, err := ygot.Diff(a, b, &ygot.IgnoreAdditions{})
	symAssert(err == nil, "Diff with IgnoreAdditions fails")
	symAssert(len(ni.Delete) == len(n.Delete), "IgnoreAdditions must not change the deletes")
	symAssert(len(ni.Update) <= len(n.Update), "IgnoreAdditions only omits updates")
}

// H_C03_atomic: DiffWithAtomic carries ordered-by-user lists as atomic notifications;
// applying them gives b's entries in b's order (also for a pure reorder).
func H_C03_atomic() {
	mk := func(tag string) *Device {
		c := &V_C{Ol: &V_C_Ol_OrderedMap{}}
		// entries p and q (q optional), each with its own value, in either order
		keys := []string{"p", "q"}
		if symBool(tag + ".swap") {
			keys = []string{"q", "p"}
		}
		two := symBool(tag + ".two")
		for _, k := range keys {
			if k == "q" && !two {
				continue
			}
			e, _ := c.Ol.AppendNew(k)
			v := uint32(len(k)) + uint32(k[0])
			e.Val = &v
		}
		return &Device{C: c}
	}
	a, b := mk("a"), mk("b")
	ns, err := ygot.DiffWithAtomic(a, b)
	symReach("diffed")
	symAssert(err == nil, "DiffWithAtomic fails on valid trees")
	backI := symSnapshot(a) // engine-made copy, independent of ygot.DeepCopy
	back := backI.(*Device)
	schema := &ytypes.Schema{Root: back, SchemaTree: SchemaTree, Unmarshal: Unmarshal}
	err = ytypes.UnmarshalNotifications(schema, ns)
	symAssert(err == nil, "the notifications DiffWithAtomic produced cannot be applied")
	got := schema.Root.(*Device)
	symAssert(got.C != nil && got.C.Ol != nil, "ordered list present after applying the diff")
	gk, bk := got.C.Ol.Keys(), b.C.Ol.Keys()
	symAssert(len(gk) == len(bk), "ordered list length after applying the diff")
	for i := range bk {
		symAssert(gk[i] == bk[i], "ordered list must end up in b's order")
	}
	symAssert(reflect.DeepEqual(got.C.Ol.Values(), b.C.Ol.Values()), "ordered list entries after applying the diff")
}

// H_C03_escapes: two entries of a two-key list whose key values contain ']', '[' and '='
// (so that their unescaped path texts coincide) are distinct nodes: the diff from the
// empty tree, applied to the empty tree, gives both back.
func H_C03_escapes() {
	p, q, r := c01S("p", 1), c01S("q", 1), c01S("r", 1)
	v1, v2 := c01S("v1", 1), c01S("v2", 1)
	k1a, k2a := p, q+"][k2="+r
	k1b, k2b := p+"][k2="+q, r
	b := &Device{C: &V_C{K2S: map[V_C_K2S_Key]*V_C_K2S{
		{K1: k1a, K2: k2a}: {K1: &k1a, K2: &k2a, V: &v1},
		{K1: k1b, K2: k2b}: {K1: &k1b, K2: &k2b, V: &v2},
	}}}
	symMapOrder(b.C.K2S)
	n, err := ygot.Diff(&Device{}, b)
	symReach("diffed")
	symAssert(err == nil, "Diff fails on valid trees")
	back := &Device{}
	schema := &ytypes.Schema{Root: back, SchemaTree: SchemaTree, Unmarshal: Unmarshal}
	err = ytypes.UnmarshalNotifications(schema, []*gpb.Notification{n})
	symAssert(err == nil, "the notification Diff produced cannot be applied")
	got := schema.Root.(*Device)
	symAssert(got.C != nil && len(got.C.K2S) == 2, "both entries must be recreated")
	symAssert(reflect.DeepEqual(got, b), "applying Diff(empty, b) does not give b")
}
