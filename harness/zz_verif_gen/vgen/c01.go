//go:build verif

package vgen

import (
	"reflect"
	"unicode/utf8"

	"github.com/openconfig/ygot/ygot"
	"github.com/openconfig/ygot/ytypes"
)

// c01Tree: a /v/c tree with one populated field class, symbolic leaf values.
func c01Tree() *V_C {
	c := &V_C{}
	switch symChoose("class", 15) {
	case 14: // two-string-key list with two entries (key texts may contain spaces)
		a1, b1, a2, b2 := symString("k2s.a1", 2), symString("k2s.b1", 2), symString("k2s.a2", 2), symString("k2s.b2", 2)
		symAssume(len(a1) > 0 && len(b1) > 0 && len(a2) > 0 && len(b2) > 0)
		symAssume(utf8.ValidString(a1) && utf8.ValidString(b1) && utf8.ValidString(a2) && utf8.ValidString(b2))
		symAssume(a1 != a2 || b1 != b2)
		a1c, b1c, a2c, b2c := a1, b1, a2, b2
		c.K2S = map[V_C_K2S_Key]*V_C_K2S{
			{K1: a1, K2: b1}: {K1: &a1c, K2: &b1c},
			{K1: a2, K2: b2}: {K1: &a2c, K2: &b2c},
		}
	case 13: // union-keyed list with two entries whose keys are of different member types
		ks, ku := c01S("kus", 1), symUint16("kuu")
		// RFC 7950 9.12: a union value belongs to the first member type it matches, so a
		// string member never holds text that is a valid uint16 (it would be the number)
		symAssume(ks[0] < '0' || ks[0] > '9')
		v1, v2 := "s", "u"
		c.Ku = map[V_C_Ku_K_Union]*V_C_Ku{
			UnionString(ks): {K: UnionString(ks), Val: &v1},
			UnionUint16(ku): {K: UnionUint16(ku), Val: &v2},
		}
	case 0: // string, enum, identityref leaves
		s := symString("cfg", 2)
		symAssume(utf8.ValidString(s)) // YANG strings are Unicode
		c.Cfg = &s
		c.Col = []E_V_Colour{V_Colour_RED, V_Colour_GREEN, V_Colour_BLUE}[symChoose("col", 3)]
		c.Idr = []E_V_BASE_ID{0, V_BASE_ID_ID_A, V_BASE_ID_ID_B}[symChoose("idr", 3)]
	case 1: // numeric leaves of a nested container
		u := symUint32("du32")
		i := symInt8("di8")
		b := symBool("dbool")
		c.D = &V_C_D{Du32: &u, Di8: &i, Dbool: &b}
	case 2: // decimal64
		f := symFloat64("ddec")
		symAssume(f == f && f-f == 0)
		c.D = &V_C_D{Ddec: &f}
	case 3: // binary (including zero length) and empty
		c.Bin = Binary(symBytes("bin", 2))
		c.Em = YANGEmpty(symBool("em"))
	case 4: // leaf-list
		n := symChoose("lln", 3)
		if n == 0 && symBool("ll_empty_nonnil") {
			c.Ll = []string{} // a set but empty leaf-list
		}
		for i := 0; i < n; i++ {
			c.Ll = append(c.Ll, c01S(symName("ll", i), 1))
		}
	case 5: // string-keyed list with nested container
		k := c01S("ks", 1)
		kk := k
		v := symUint16("ksv")
		x := symInt8("x")
		c.Ks = map[string]*V_C_Ks{k: {Name: &kk, Val: &v, Sub: &V_C_Ks_Sub{X: &x}}}
	case 6: // int64-keyed list
		id := symInt64("id")
		i2 := id
		c.Ki = map[int64]*V_C_Ki{id: {Id: &i2}}
	case 7: // struct-keyed list (string, enum)
		k := V_C_Km_Key{Name: c01S("km", 1), Col: V_Colour_GREEN}
		n := k.Name
		c.Km = map[V_C_Km_Key]*V_C_Km{k: {Name: &n, Col: k.Col}}
	case 8: // ordered list of two
		c.Ol = &V_C_Ol_OrderedMap{}
		k1, k2 := symString("ol1", 1), c01S("ol2", 1) // the first key may be the empty string
		symAssume(utf8.ValidString(k1))
		symAssume(k1 != k2)
		e1, _ := c.Ol.AppendNew(k1)
		c.Ol.AppendNew(k2)
		v := symUint32("olv")
		e1.Val = &v
	case 9: // unions
		if symBool("unstr") {
			c.Un = UnionString(c01S("un", 2))
		} else {
			c.Un = UnionUint16(symUint16("un16"))
		}
	case 12: // presence container
		c.Pc = &V_C_Pc{}
	case 10: // uint64 in config false container, unkeyed list
		cnt := symUint64("cnt")
		n := c01S("uln", 1)
		c.St = &V_C_St{Counter: &cnt, Ul: []*V_C_St_Ul{{Name: &n}}}
	case 11: // bool+uint32 keyed list
		f, u := symBool("flag"), symUint32("num")
		f2, u2 := f, u
		c.Kb = map[V_C_Kb_Key]*V_C_Kb{{Flag: f, Num: u}: {Flag: &f2, Num: &u2}}
	}
	return c
}

// H_C01_roundtrip: rendering a tree to RFC7951 JSON and unmarshalling it into an empty
// root gives the same tree; re-rendering gives the same JSON (compared as decoded trees).
//
//gosym:maxpaths=200000
//gosym:timeout_ms=60000
func H_C01_roundtrip() {
	c := c01Tree()
	cfg := &ygot.RFC7951JSONConfig{AppendModuleName: symBool("append_module")}
	j, err := ygot.ConstructIETFJSON(c, cfg)
	symReach("rendered")
	symAssert(err == nil, "ConstructIETFJSON fails on a valid tree")
	back := &V_C{}
	err = ytypes.Unmarshal(SchemaTree["V_C"], back, j)
	symAssert(err == nil, "Unmarshal rejects JSON that ygot rendered")
	emptyLl := c.Ll != nil && len(c.Ll) == 0
	if len(c.Ll) == 0 {
		c.Ll, back.Ll = nil, nil // a leaf-list without values does not exist in the data tree
	}
	symAssert(reflect.DeepEqual(c, back), "the round trip changes the tree")
	symKnown("C01-empty-leaflist", emptyLl)
	j2, err := ygot.ConstructIETFJSON(back, cfg)
	symAssert(err == nil && reflect.DeepEqual(j, j2), "re-rendering the result gives different JSON")
}

// c01S: a string leaf/key value of exactly n bytes that is valid UTF-8 (YANG strings are Unicode).
// (thorough tier: n+1 bytes, which brings in two-byte UTF-8 sequences)
func c01S(name string, n int) string {
	s := symStringN(name, n+symTier())
	symAssume(utf8.ValidString(s))
	return s
}
