//go:build verif

package vgen

// One-step induction over the generated keyed-list helpers of /v/c/km (string + enum
// struct key) and /v/c/ki (int64 key): arbitrary pre-state under invariant J (every
// entry non-nil, key leaves non-nil and equal to the map key), one helper call with
// arbitrary arguments, abstract map step + J asserted afterwards.

import "fmt"

type c34Model struct {
	keys  []V_C_Km_Key
	elems []*V_C_Km
}

func c34Key(tag string) V_C_Km_Key {
	return V_C_Km_Key{Name: symStringN(tag+".name", 1), Col: E_V_Colour(symInt64(tag + ".col"))}
}

func c34Pre(tag string) (*V_C, *c34Model) {
	t := &V_C{}
	m := &c34Model{}
	shape := symChoose(tag+".shape", 4) // 0: nil map, 1: empty map, 2..3: 1..2 entries
	if shape == 0 {
		return t, m
	}
	t.Km = map[V_C_Km_Key]*V_C_Km{}
	for i := 0; i < shape-1; i++ {
		k := c34Key(fmt.Sprintf("%s.k%d", tag, i))
		for _, prev := range m.keys {
			symAssume(k != prev)
		}
		n := k.Name
		e := &V_C_Km{Name: &n, Col: k.Col}
		t.Km[k] = e
		m.keys = append(m.keys, k)
		m.elems = append(m.elems, e)
	}
	return t, m
}

func (m *c34Model) find(k V_C_Km_Key) int {
	for i, x := range m.keys {
		if x == k {
			return i
		}
	}
	return -1
}

func (m *c34Model) remove(i int) {
	m.keys = append(append([]V_C_Km_Key{}, m.keys[:i]...), m.keys[i+1:]...)
	m.elems = append(append([]*V_C_Km{}, m.elems[:i]...), m.elems[i+1:]...)
}

func c34Check(t *V_C, m *c34Model) {
	symAssert(len(t.Km) == len(m.keys), "map size differs from the model")
	for i, k := range m.keys {
		e, ok := t.Km[k]
		symAssert(ok, "model key missing from the map")
		symAssert(e != nil, "nil entry (invariant)")
		symAssert(e == m.elems[i], "entry differs from the model")
		symAssert(e.Name != nil && *e.Name == k.Name && e.Col == k.Col, "entry key leaves differ from its map key (invariant)")
	}
}

// H_C34_km: helpers of a list keyed by (string, enumeration).
//
//gosym:maxpaths=300000
func H_C34_km() {
	t, m := c34Pre("t")
	k := c34Key("arg")
	switch symChoose("op", 7) {
	case 0: // New
		e, err := t.NewKm(k.Name, k.Col)
		ok := m.find(k) < 0
		symReach("new")
		symAssert((err == nil) == ok, "New must succeed exactly for a new key")
		if ok {
			symAssert(e != nil && e.Name != nil && *e.Name == k.Name && e.Col == k.Col, "New returns the entry with its key leaves set")
			m.keys, m.elems = append(m.keys, k), append(m.elems, e)
		} else {
			symAssert(e == nil, "failed New returns nil")
		}
	case 1: // GetOrCreate (idempotent)
		e1 := t.GetOrCreateKm(k.Name, k.Col)
		e2 := t.GetOrCreateKm(k.Name, k.Col)
		symReach("getorcreate")
		symAssert(e1 != nil && e1 == e2, "GetOrCreate is idempotent")
		if i := m.find(k); i >= 0 {
			symAssert(e1 == m.elems[i], "GetOrCreate returns the existing entry")
		} else {
			m.keys, m.elems = append(m.keys, k), append(m.elems, e1)
		}
	case 2: // Get never creates
		e := t.GetKm(k.Name, k.Col)
		symReach("get")
		if i := m.find(k); i >= 0 {
			symAssert(e == m.elems[i], "Get returns the entry stored under the key")
		} else {
			symAssert(e == nil, "Get returns nil for an absent key")
		}
	case 3: // Append
		n := k.Name
		v := &V_C_Km{Col: k.Col}
		nilKey := symBool("nilkey")
		if !nilKey {
			v.Name = &n
		}
		err := t.AppendKm(v)
		ok := !nilKey && m.find(k) < 0
		symReach("append")
		symAssert((err == nil) == ok, "Append must succeed exactly for a new key with non-nil key leaves")
		if ok {
			m.keys, m.elems = append(m.keys, k), append(m.elems, v)
		}
	case 4: // Delete
		t.DeleteKm(k.Name, k.Col)
		symReach("delete")
		if i := m.find(k); i >= 0 {
			m.remove(i)
		}
	case 5: // Rename
		nk := c34Key("new")
		err := t.RenameKm(k, nk)
		i := m.find(k)
		ok := i >= 0 && m.find(nk) < 0
		symReach("rename")
		symAssert((err == nil) == ok, "Rename must succeed exactly when the old key exists and the new one does not")
		if ok {
			m.keys[i] = nk // the same entry, now under the new key with updated key leaves
		}
	case 6: // ΛListKeyMap of an existing entry returns its key leaves
		if len(m.elems) == 0 {
			return
		}
		km, err := m.elems[0].ΛListKeyMap()
		symReach("keymap")
		symAssert(err == nil && len(km) == 2, "ΛListKeyMap of a valid entry")
		symAssert(km["name"] == interface{}(m.keys[0].Name), "ΛListKeyMap name")
		symAssert(km["col"] == interface{}(m.keys[0].Col), "ΛListKeyMap col")
	}
	c34Check(t, m)
}

// H_C34_ki: helpers of a list keyed by int64 (full width).
//
//gosym:maxpaths=300000
func H_C34_ki() {
	t := &V_C{}
	var keys []int64
	var elems []*V_C_Ki
	shape := symChoose("shape", 4)
	if shape > 0 {
		t.Ki = map[int64]*V_C_Ki{}
	}
	for i := 0; i < shape-1; i++ {
		k := symInt64(fmt.Sprintf("k%d", i))
		for _, prev := range keys {
			symAssume(k != prev)
		}
		kk := k
		e := &V_C_Ki{Id: &kk}
		t.Ki[k] = e
		keys, elems = append(keys, k), append(elems, e)
	}
	find := func(k int64) int {
		for i, x := range keys {
			if x == k {
				return i
			}
		}
		return -1
	}
	k := symInt64("arg")
	switch symChoose("op", 5) {
	case 0:
		e, err := t.NewKi(k)
		ok := find(k) < 0
		symReach("new")
		symAssert((err == nil) == ok, "New must succeed exactly for a new key")
		if ok {
			keys, elems = append(keys, k), append(elems, e)
		}
	case 1:
		kk := k
		v := &V_C_Ki{}
		nilKey := symBool("nilkey")
		if !nilKey {
			v.Id = &kk
		}
		err := t.AppendKi(v)
		ok := !nilKey && find(k) < 0
		symReach("append")
		symAssert((err == nil) == ok, "Append must succeed exactly for a new non-nil key")
		if ok {
			keys, elems = append(keys, k), append(elems, v)
		}
	case 2:
		e := t.GetKi(k)
		symReach("get")
		if i := find(k); i >= 0 {
			symAssert(e == elems[i], "Get")
		} else {
			symAssert(e == nil, "Get of an absent key")
		}
	case 3:
		t.DeleteKi(k)
		symReach("delete")
		if i := find(k); i >= 0 {
			keys = append(append([]int64{}, keys[:i]...), keys[i+1:]...)
			elems = append(append([]*V_C_Ki{}, elems[:i]...), elems[i+1:]...)
		}
	case 4:
		nk := symInt64("new")
		err := t.RenameKi(k, nk)
		i := find(k)
		ok := i >= 0 && find(nk) < 0
		symReach("rename")
		symAssert((err == nil) == ok, "Rename must succeed exactly when the old key exists and the new one does not")
		if ok {
			keys[i] = nk
		}
	}
	symAssert(len(t.Ki) == len(keys), "map size differs from the model")
	for i, kk := range keys {
		e := t.Ki[kk]
		symAssert(e != nil && e == elems[i], "entry differs from the model")
		symAssert(e.Id != nil && *e.Id == kk, "entry key leaf differs from its map key (invariant)")
	}
}
