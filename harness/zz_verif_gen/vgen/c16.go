//go:build verif

package vgen

import (
	"reflect"

	gpb "github.com/openconfig/gnmi/proto/gnmi"
	"github.com/openconfig/ygot/ygot"
	"github.com/openconfig/ygot/ytypes"
)

// H_C16_scalar: the key string ygot puts into gNMI paths for a key value of every
// integer width, bool, string and enumeration type decodes (StringToType, the decoder
// SetNode/GetNode/DeleteNode use for path keys) to the same value.
//
//gosym:maxpaths=200000
func H_C16_scalar() {
	var v interface{}
	switch symChoose("type", 13) {
	case 12: // decimal64 keys are float64 in the GoStruct
		f := symFloat64("v")
		symAssume(f == f && f-f == 0) // finite
		v = f
	case 0:
		v = symInt8("v")
	case 1:
		v = symInt16("v")
	case 2:
		v = symInt32("v")
	case 3:
		v = symInt64("v")
	case 4:
		v = symUint8("v")
	case 5:
		v = symUint16("v")
	case 6:
		v = symUint32("v")
	case 7:
		v = symUint64("v")
	case 8:
		v = symBool("v")
	case 9:
		v = symString("v", 3)
	case 10:
		e := E_V_Colour(symInt64("v"))
		symAssume(e == V_Colour_RED || e == V_Colour_GREEN || e == V_Colour_BLUE)
		v = e
	case 11:
		e := E_V_BASE_ID(symInt64("v"))
		symAssume(e == V_BASE_ID_ID_A || e == V_BASE_ID_ID_B)
		v = e
	}
	s, err := ygot.KeyValueAsString(v)
	symReach("rendered")
	symAssert(err == nil, "KeyValueAsString fails for a supported key type")
	back, err := ytypes.StringToType(reflect.TypeOf(v), s)
	symAssert(err == nil, "the key string cannot be decoded to the key type")
	symAssert(back.Interface() == v, "decoding the key string gives a different key value")
}

// H_C16_keymap: the key map of a generated list entry (ΛListKeyMap, what
// TogNMINotifications/Diff use) renders through KeyValueAsString and decodes to the
// entry's key leaves, for int64, (string, enum), union and (bool, uint32) keys.
//
//gosym:maxpaths=200000
func H_C16_keymap() {
	var km map[string]interface{}
	var err error
	switch symChoose("list", 3) {
	case 0:
		id := symInt64("id")
		km, err = (&V_C_Ki{Id: &id}).ΛListKeyMap()
	case 1:
		n := symString("name", 2)
		c := E_V_Colour(symInt64("col"))
		symAssume(c == V_Colour_RED || c == V_Colour_GREEN || c == V_Colour_BLUE)
		km, err = (&V_C_Km{Name: &n, Col: c}).ΛListKeyMap()
	case 2:
		f := symBool("flag")
		u := symUint32("num")
		km, err = (&V_C_Kb{Flag: &f, Num: &u}).ΛListKeyMap()
	}
	symAssert(err == nil, "ΛListKeyMap fails on an entry with all key leaves set")
	for _, kv := range km {
		s, err := ygot.KeyValueAsString(kv)
		symAssert(err == nil, "KeyValueAsString fails for a generated key leaf")
		back, err := ytypes.StringToType(reflect.TypeOf(kv), s)
		symAssert(err == nil, "the key string cannot be decoded to the key type")
		symAssert(back.Interface() == kv, "decoding the key string gives a different key value")
	}
	symReach("done")
}

// H_C16_decimal: decimal64 list keys (float64 in the GoStruct) of a keyed list and of an
// ordered-by-user keyed list: the key string ygot renders (KeyValueAsString, what
// TogNMINotifications/Diff/path structs use) addresses the entry again through SetNode
// and GetNode, and an entry created by SetNode from that path has the original key.
func H_C16_decimal() {
	f := symFloat64("d")
	symAssume(f == f && f-f == 0) // finite
	ks, err := ygot.KeyValueAsString(f)
	symAssert(err == nil, "KeyValueAsString fails for a decimal64 key")
	list := "kd"
	if symBool("ordered") {
		list = "okd"
	}
	d := &Device{}
	p := c10Path(c10E("c"), c10K(list, "d", ks), c10E("val"))
	err = ytypes.SetNode(SchemaTree["Device"], d, p, &gpb.TypedValue{Value: &gpb.TypedValue_StringVal{StringVal: "x"}}, &ytypes.InitMissingElements{})
	symReach("set")
	symAssert(err == nil, "SetNode cannot create the entry from the key string ygot renders for a decimal64 key")
	if list == "kd" {
		e := d.C.Kd[f]
		symAssert(len(d.C.Kd) == 1 && e != nil && e.D != nil && *e.D == f, "the created entry has the original decimal64 key")
	} else {
		e := d.C.Okd.Get(f)
		symAssert(d.C.Okd.Len() == 1 && e != nil && e.D != nil && *e.D == f, "the created ordered-list entry has the original decimal64 key")
	}
	nodes, err := ytypes.GetNode(SchemaTree["Device"], d, p)
	symAssert(err == nil && len(nodes) == 1, "GetNode finds the entry again through the same key string")
}
