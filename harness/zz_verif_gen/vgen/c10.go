//go:build verif

package vgen

import (
	gpb "github.com/openconfig/gnmi/proto/gnmi"
	"github.com/openconfig/ygot/ytypes"
)

func c10Path(elems ...*gpb.PathElem) *gpb.Path { return &gpb.Path{Elem: elems} }
func c10E(name string) *gpb.PathElem         { return &gpb.PathElem{Name: name} }
func c10K(name, k, v string) *gpb.PathElem {
	return &gpb.PathElem{Name: name, Key: map[string]string{k: v}}
}

// c10Pre: a pre-existing tree: /c/cfg and one /c/ks entry, each present or absent.
func c10Pre() (*Device, *string, *string, *uint16) {
	d := &Device{}
	var cfg, ksName *string
	var ksVal *uint16
	if symBool("pre.c") {
		d.C = &V_C{}
		if symBool("pre.cfg") {
			s := symStringN("pre.cfgv", 1)
			cfg = &s
			d.C.Cfg = cfg
		}
		if symBool("pre.ks") {
			k := symStringN("pre.ksk", 1)
			v := symUint16("pre.ksv")
			ksName, ksVal = &k, &v
			kk := k
			d.C.Ks = map[string]*V_C_Ks{k: {Name: &kk, Val: ksVal}}
		}
	}
	return d, cfg, ksName, ksVal
}

// H_C10_setget_leaf: SetNode on leaf paths (top-level leaf, leaf of a keyed-list entry
// created on the way, int64-keyed entry) followed by GetNode returns exactly the value
// set; every other leaf keeps its value; created entries get the keys named in the path.
//
//gosym:maxpaths=200000
func H_C10_setget_leaf() {
	d, cfg, ksName, ksVal := c10Pre()
	schema := SchemaTree["Device"]
	var p *gpb.Path
	var tv *gpb.TypedValue
	which := symChoose("target", 4)
	var newCfg string
	var key string
	var val uint16
	var id int64
	switch which {
	case 0: // /c/cfg = string
		newCfg = symStringN("v.cfg", 1)
		p = c10Path(c10E("c"), c10E("cfg"))
		tv = &gpb.TypedValue{Value: &gpb.TypedValue_StringVal{StringVal: newCfg}}
	case 1: // /c/ks[name=K]/val = uint
		key = symStringN("k", 1)
		val = symUint16("v.val")
		p = c10Path(c10E("c"), c10K("ks", "name", key), c10E("val"))
		tv = &gpb.TypedValue{Value: &gpb.TypedValue_UintVal{UintVal: uint64(val)}}
	case 2: // /c/ki[id=N]/val = string, N every int64 rendered in decimal
		id = symInt64("id")
		p = c10Path(c10E("c"), c10K("ki", "id", symDecimal(id)), c10E("val"))
		tv = &gpb.TypedValue{Value: &gpb.TypedValue_StringVal{StringVal: "x"}}
	}
	var mkey string
	if which == 3 { // /c/km[name=K][col=RED]/val next to an existing entry (p, RED)
		mkey = symStringN("mk", 1)
		symAssume(mkey != "p")
		if d.C == nil {
			d.C = &V_C{}
		}
		pn := "p"
		d.C.Km = map[V_C_Km_Key]*V_C_Km{{Name: "p", Col: V_Colour_RED}: {Name: &pn, Col: V_Colour_RED}}
		p = c10Path(c10E("c"), &gpb.PathElem{Name: "km", Key: map[string]string{"name": mkey, "col": "RED"}}, c10E("val"))
		tv = &gpb.TypedValue{Value: &gpb.TypedValue_StringVal{StringVal: "y"}}
	}
	err := ytypes.SetNode(schema, d, p, tv, &ytypes.InitMissingElements{})
	symReach("set")
	symAssert(err == nil, "SetNode fails for a type-correct value on a valid leaf path")
	nodes, err := ytypes.GetNode(schema, d, p)
	symAssert(err == nil && len(nodes) == 1, "GetNode must return exactly one node for the path just set")
	switch which {
	case 0:
		got, ok := nodes[0].Data.(*string)
		symAssert(ok && got != nil && *got == newCfg, "GetNode returns the string just set")
		if ksName != nil {
			e := d.C.Ks[*ksName]
			symAssert(len(d.C.Ks) == 1 && e != nil && e.Val == ksVal && *e.Val == *ksVal, "unrelated list entry must be untouched")
		}
	case 1:
		got, ok := nodes[0].Data.(*uint16)
		symAssert(ok && got != nil && *got == val, "GetNode returns the uint16 just set")
		e := d.C.Ks[key]
		symAssert(e != nil && e.Name != nil && *e.Name == key, "the entry addressed by the path exists with its key leaf set to the path key")
		if cfg != nil {
			symAssert(d.C.Cfg == cfg, "unrelated leaf must be untouched")
		}
		if ksName != nil && *ksName != key {
			o := d.C.Ks[*ksName]
			symAssert(len(d.C.Ks) == 2 && o != nil && *o.Val == *ksVal, "other list entry must be untouched")
		}
		if ksName != nil && *ksName == key {
			symAssert(len(d.C.Ks) == 1, "setting a leaf of an existing entry must not create another entry")
		}
	case 3:
		e := d.C.Km[V_C_Km_Key{Name: mkey, Col: V_Colour_RED}]
		symAssert(len(d.C.Km) == 2 && e != nil && e.Name != nil && *e.Name == mkey && e.Col == V_Colour_RED, "the struct-keyed entry named by the path exists with its key leaves")
		symAssert(e.Val != nil && *e.Val == "y", "leaf of the addressed entry")
		o := d.C.Km[V_C_Km_Key{Name: "p", Col: V_Colour_RED}]
		symAssert(o != nil && o.Val == nil, "the other entry sharing one key component must be untouched")
	case 2:
		e := d.C.Ki[id]
		symAssert(len(d.C.Ki) == 1 && e != nil && e.Id != nil && *e.Id == id, "the int64-keyed entry exists under the numeric key with its key leaf set")
		symAssert(e.Val != nil && *e.Val == "x", "leaf of the created entry")
	}
}

// H_C10_leaflist: SetNode on a leaf-list path replaces the leaf-list wholesale with the
// payload (gNMI leaflist_val or JSON_IETF text, including the empty list) and GetNode
// returns it.
func H_C10_leaflist() {
	d := &Device{C: &V_C{}}
	if symBool("pre") {
		d.C.Ll = []string{symStringN("old0", 1), "zz"}
	}
	schema := SchemaTree["Device"]
	p := c10Path(c10E("c"), c10E("ll"))
	var tv *gpb.TypedValue
	var want []string
	switch symChoose("payload", 4) {
	case 0:
		a, b := symStringN("a", 1), symStringN("b", 1)
		want = []string{a, b}
		tv = &gpb.TypedValue{Value: &gpb.TypedValue_LeaflistVal{LeaflistVal: &gpb.ScalarArray{Element: []*gpb.TypedValue{
			{Value: &gpb.TypedValue_StringVal{StringVal: a}}, {Value: &gpb.TypedValue_StringVal{StringVal: b}}}}}}
	case 1:
		want = []string{}
		tv = &gpb.TypedValue{Value: &gpb.TypedValue_JsonIetfVal{JsonIetfVal: []byte("[]")}}
	case 2:
		want = []string{"q"}
		tv = &gpb.TypedValue{Value: &gpb.TypedValue_JsonIetfVal{JsonIetfVal: []byte(`["q"]`)}}
	case 3:
		want = []string{"q", "r"}
		tv = &gpb.TypedValue{Value: &gpb.TypedValue_JsonIetfVal{JsonIetfVal: []byte(`["q", "r"]`)}}
	}
	err := ytypes.SetNode(schema, d, p, tv, &ytypes.InitMissingElements{})
	symReach("set")
	symAssert(err == nil, "SetNode fails for a type-correct leaf-list payload")
	symAssert(len(d.C.Ll) == len(want), "the leaf-list must hold exactly the payload's values")
	for i := range want {
		symAssert(d.C.Ll[i] == want[i], "leaf-list element")
	}
	nodes, err := ytypes.GetNode(schema, d, p)
	if len(want) > 0 {
		symAssert(err == nil && len(nodes) == 1, "GetNode must return the leaf-list")
		got, ok := nodes[0].Data.([]string)
		symAssert(ok && len(got) == len(want), "GetNode returns the slice just set")
	}
}

// H_C10_shared_pointer: a tree in which two leaves hold the same Go pointer (entries
// cloned from a template, one ygot.Uint16(v) assigned twice): setting one of them
// through SetNode must leave the other leaf's value as it was, and a *T handed out by an
// earlier GetNode keeps the value it had.
func H_C10_shared_pointer() {
	old := symUint16("old")
	oldCell := old // the shared cell (old itself stays the reference value)
	shared := &oldCell
	na, nb := "a", "b"
	s := symStringN("olds", 1)
	sCell := s
	sharedStr := &sCell
	d := &Device{C: &V_C{
		Ks:  map[string]*V_C_Ks{"a": {Name: &na, Val: shared}, "b": {Name: &nb, Val: shared}},
		Cfg: sharedStr,
		Sel: sharedStr,
	}}
	schema := SchemaTree["Device"]
	var opts []ytypes.SetNodeOpt
	if symBool("init") {
		opts = append(opts, &ytypes.InitMissingElements{})
	}
	if symBool("string leaf") {
		nv := symStringN("news", 1)
		err := ytypes.SetNode(schema, d, c10Path(c10E("c"), c10E("cfg")), &gpb.TypedValue{Value: &gpb.TypedValue_StringVal{StringVal: nv}}, opts...)
		symReach("set string")
		symAssert(err == nil, "SetNode of a string on an existing leaf succeeds")
		symAssert(d.C.Cfg != nil && *d.C.Cfg == nv, "the addressed leaf holds the new value")
		symAssert(d.C.Sel != nil && *d.C.Sel == s, "another leaf that shared the pointer keeps its previous value")
		return
	}
	before, _ := ytypes.GetNode(schema, d, c10Path(c10E("c"), c10K("ks", "name", "b"), c10E("val")))
	nv := symUint16("new")
	err := ytypes.SetNode(schema, d, c10Path(c10E("c"), c10K("ks", "name", "a"), c10E("val")), &gpb.TypedValue{Value: &gpb.TypedValue_UintVal{UintVal: uint64(nv)}}, opts...)
	symReach("set uint")
	symAssert(err == nil, "SetNode of a uint on an existing leaf succeeds")
	symAssert(d.C.Ks["a"].Val != nil && *d.C.Ks["a"].Val == nv, "the addressed leaf holds the new value")
	symAssert(d.C.Ks["b"].Val != nil && *d.C.Ks["b"].Val == old, "the same leaf of another list entry keeps its previous value")
	if len(before) == 1 {
		p, ok := before[0].Data.(*uint16)
		symAssert(ok && p != nil && *p == old, "a value handed out by an earlier GetNode is not changed by a later SetNode of another leaf")
	}
}
