//go:build verif

package vgen

import (
	"reflect"

	"github.com/openconfig/ygot/ygot"
)

// c04Tree builds a /v/c tree in which every field class is nil, empty or populated
// with symbolic values, chosen independently (the choice index is symbolic).
func c04Tree(tag string, classes int) *V_C {
	c := &V_C{}
	// which field class is exercised (others stay unset to bound the product)
	switch symChoose(tag+".class", classes) {
	case 0: // scalar leaves, enum
		s := symStringN(tag+".cfg", 1)
		c.Cfg = &s
		c.Col = V_Colour_RED
	case 1: // container + nested leaves
		u := symUint32(tag + ".du32")
		c.D = &V_C_D{Du32: &u}
	case 2: // binary
		c.Bin = Binary(symBytes(tag+".bin", 2))
	case 3: // leaf-list
		n := symChoose(tag+".lln", 3)
		for i := 0; i < n; i++ {
			c.Ll = append(c.Ll, symStringN(symName(tag+".ll", i), 1))
		}
	case 4: // keyed list, string key, with a nested container
		k := symStringN(tag+".ks", 1)
		kk := k
		x := symInt8(tag + ".x")
		c.Ks = map[string]*V_C_Ks{k: {Name: &kk, Sub: &V_C_Ks_Sub{X: &x}}}
	case 5: // struct-keyed list
		k := V_C_Km_Key{Name: symStringN(tag+".km", 1), Col: V_Colour_BLUE}
		n := k.Name
		c.Km = map[V_C_Km_Key]*V_C_Km{k: {Name: &n, Col: k.Col}}
	case 6: // unkeyed list (config false) and uint64 leaf
		n := symStringN(tag+".ul", 1)
		cnt := symUint64(tag + ".cnt")
		c.St = &V_C_St{Counter: &cnt, Ul: []*V_C_St_Ul{{Name: &n}}}
	case 7: // ordered list with two entries
		c.Ol = &V_C_Ol_OrderedMap{}
		k1 := symStringN(tag+".ol1", 1)
		k2 := symStringN(tag+".ol2", 1)
		symAssume(k1 != k2)
		c.Ol.AppendNew(k1)
		c.Ol.AppendNew(k2)
	case 8: // union leaf (simple union: value types)
		if symBool(tag + ".unstr") {
			c.Un = UnionString(symStringN(tag+".un", 2))
		} else {
			c.Un = UnionUint16(symUint16(tag + ".un16"))
		}
	case 10: // binary inside a union
		// (a zero-length binary inside a union is copied as Binary(nil); both are a set
		// leaf with no bytes and render identically, so that case is not demanded)
		ub := symBytes(tag+".unb", 2)
		symAssume(len(ub) > 0)
		c.Unb = Binary(ub)
	case 9: // presence container, empty leaf
		c.Pc = &V_C_Pc{}
		c.Em = YANGEmpty(true)
	}
	return c
}

// H_C04_deepcopy: DeepCopy returns an equal tree that shares no mutable memory with
// its argument, for every field class.
func H_C04_deepcopy() {
	c := c04Tree("c", 11)
	cpI, err := ygot.DeepCopy(c)
	symReach("copied")
	symAssert(err == nil, "DeepCopy fails on a valid tree")
	cp := cpI.(*V_C)
	symAssert(reflect.DeepEqual(c, cp), "the copy differs from the original")
	symAssert(!symSharesMemory(c, cp), "the copy shares mutable memory with the original")
}

// H_C04_merge: the result of MergeStructs shares no mutable memory with either input.
//
//gosym:maxpaths=200000
func H_C04_merge() {
	a := c04Tree("a", 11)
	b := c04Tree("b", 11)
	mI, err := ygot.MergeStructs(a, b)
	if err != nil {
		symReach("conflict")
		return
	}
	symReach("merged")
	m := mI.(*V_C)
	symAssert(!symSharesMemory(a, m), "the merge result shares mutable memory with its first input")
	symAssert(!symSharesMemory(b, m), "the merge result shares mutable memory with its second input")
}
