//go:build verif

package vgen

import (
	"reflect"

	gpb "github.com/openconfig/gnmi/proto/gnmi"
	"github.com/openconfig/ygot/ygot"
	"github.com/openconfig/ygot/ytypes"
	"google.golang.org/protobuf/proto"
)

// H_C11_tree_readonly: the read-only and encoding APIs leave the tree they are given
// unchanged (compared with a DeepCopy taken before the call).
//
//gosym:maxpaths=100000
func H_C11_tree_readonly() {
	c := c01Tree()
	if c.St != nil {
		c.St.Ul = nil
	}
	if (c.D != nil && c.D.Ddec != nil) || c.Ki != nil || c.Kb != nil || c.K2S != nil {
		return // float-valued trees and full-width numeric keys add only solver time here (C01/C02/C16 cover them)
	}
	d := &Device{C: c}
	snapI := symSnapshot(d) // the engine's own deep copy, not ygot.DeepCopy (code under test)
	schema := SchemaTree["Device"]
	switch symChoose("api", 7) {
	case 0:
		ytypes.GetNode(schema, d, c10Path(c10E("c"), c10E("cfg")))
		ytypes.GetNode(schema, d, c10Path(c10E("c"), c10K("ks", "name", "zz"), c10E("val")))
	case 1:
		d.ΛValidate()
	case 2:
		ygot.ConstructIETFJSON(d, &ygot.RFC7951JSONConfig{AppendModuleName: true})
	case 3:
		ygot.TogNMINotifications(d, 1, ygot.GNMINotificationsConfig{UsePathElem: true})
	case 4:
		other := &Device{C: &V_C{}}
		s := "o"
		other.C.Ro = &s
		ygot.Diff(d, other)
		ygot.Diff(other, d)
	case 5:
		ygot.DeepCopy(d)
	case 6:
		other := &Device{C: &V_C{}}
		s := "o"
		other.C.Ro = &s
		if c.Ol != nil { // the same ordered-list key on both sides, other's entry carries data d's lacks
			other.C.Ol = &V_C_Ol_OrderedMap{}
			e, _ := other.C.Ol.AppendNew(c.Ol.Keys()[0])
			y := "y"
			e.Oc = &V_C_Ol_Oc{Y: &y}
		}
		otherSnap := symSnapshot(other)
		ygot.MergeStructs(d, other)
		ygot.MergeStructs(other, d)
		symAssert(reflect.DeepEqual(other, otherSnap), "MergeStructs modified its other input")
		if c.Ol != nil {
			// checked without relying on DeepCopy (whose copy could itself alias the entries)
			first := c.Ol.Get(c.Ol.Keys()[0])
			symAssert(first != nil && first.Oc == nil, "MergeStructs wrote the other operand's data into an ordered-list entry of its input")
			oe := other.C.Ol.Get(c.Ol.Keys()[0])
			symAssert(oe != nil && oe.Val == nil, "MergeStructs wrote data into an ordered-list entry of its other input")
		}
	}
	symReach("called")
	symAssert(reflect.DeepEqual(d, snapI), "a read-only API modified the tree it was given")
}

// H_C11_messages: SetNode does not modify the TypedValue it is given (including with
// TolerateJSONInconsistencies), UnmarshalSetRequest does not modify the SetRequest,
// Unmarshal does not modify the decoded JSON value, and EncodeTypedValue /
// ConstructIETFJSON do not modify the option struct.
func H_C11_messages() {
	d := &Device{}
	schema := SchemaTree["Device"]
	switch symChoose("api", 5) {
	case 4: // SetNode with the (deprecated) float_val on a decimal64 leaf
		tv := &gpb.TypedValue{Value: &gpb.TypedValue_FloatVal{FloatVal: 1.5}}
		snap := proto.Clone(tv)
		err := ytypes.SetNode(schema, d, c10Path(c10E("c"), c10E("d"), c10E("ddec")), tv, &ytypes.InitMissingElements{})
		symReach("setnode_float")
		symAssert(err == nil, "SetNode rejects a float_val for a decimal64 leaf")
		symAssert(proto.Equal(tv, snap), "SetNode modified the TypedValue it was given")
	case 0: // SetNode with an int_val on an unsigned leaf, tolerance on
		iv := symInt64("i")
		symAssume(iv >= 1 && iv <= 100)
		tv := &gpb.TypedValue{Value: &gpb.TypedValue_IntVal{IntVal: iv}}
		snap := proto.Clone(tv)
		err := ytypes.SetNode(schema, d, c10Path(c10E("c"), c10E("d"), c10E("du32")), tv, &ytypes.InitMissingElements{}, &ytypes.TolerateJSONInconsistencies{})
		symReach("setnode")
		symAssert(err == nil, "SetNode with TolerateJSONInconsistencies rejects a non-negative int_val for an unsigned leaf")
		symAssert(proto.Equal(tv, snap), "SetNode modified the TypedValue it was given")
	case 1: // UnmarshalSetRequest
		req := &gpb.SetRequest{
			Prefix: &gpb.Path{Elem: []*gpb.PathElem{c10E("c")}},
			Delete: []*gpb.Path{{Elem: []*gpb.PathElem{c10E("cfg")}}},
			Update: []*gpb.Update{{Path: &gpb.Path{Elem: []*gpb.PathElem{c10E("ro")}}, Val: c13Str(c01S("v", 1))},
				{Path: &gpb.Path{Elem: []*gpb.PathElem{c10E("d"), c10E("du32")}}, Val: &gpb.TypedValue{Value: &gpb.TypedValue_UintVal{UintVal: 5}}}},
		}
		snap := proto.Clone(req)
		s := &ytypes.Schema{Root: d, SchemaTree: SchemaTree, Unmarshal: Unmarshal}
		ytypes.UnmarshalSetRequest(s, req)
		symReach("setrequest")
		symAssert(proto.Equal(req, snap), "UnmarshalSetRequest modified the SetRequest it was given")
	case 2: // Unmarshal and the decoded JSON value
		v := c01S("v", 1)
		// member names bare or module-qualified ("v:cfg"), as RFC 7951 allows
		q := func(tag, name string) string {
			if symBool("qualified." + tag) {
				return "v:" + name
			}
			return name
		}
		nCfg, nLl, nKs, nName := q("cfg", "cfg"), q("ll", "ll"), q("ks", "ks"), q("name", "name")
		mk := func() map[string]interface{} {
			return map[string]interface{}{nCfg: v, nLl: []interface{}{"a", "b"}, nKs: []interface{}{map[string]interface{}{nName: "k", "val": float64(3)}}}
		}
		j, twin := mk(), mk()
		err := ytypes.Unmarshal(SchemaTree["V_C"], &V_C{}, j)
		symReach("unmarshal")
		symAssert(err == nil, "Unmarshal fails on valid JSON")
		symAssert(reflect.DeepEqual(j, twin), "Unmarshal modified the decoded JSON value it was given")
	case 3: // option struct of the encoders
		cfg := &ygot.RFC7951JSONConfig{AppendModuleName: symBool("append"), PrependModuleNameIdentityref: symBool("prepend")}
		a, pr := cfg.AppendModuleName, cfg.PrependModuleNameIdentityref
		s := "x"
		c := &V_C{Cfg: &s}
		ygot.ConstructIETFJSON(c, cfg)
		ygot.EncodeTypedValue(c, gpb.Encoding_JSON_IETF, cfg)
		ygot.EncodeTypedValue(c, gpb.Encoding_JSON, cfg)
		symReach("options")
		symAssert(cfg.AppendModuleName == a && cfg.PrependModuleNameIdentityref == pr && cfg.RewriteModuleNames == nil, "an encoder modified the option struct it was given")
	}
}
