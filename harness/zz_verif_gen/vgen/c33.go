//go:build verif

package vgen

// H_C33_defaults: the generated PopulateDefaults sets every unset leaf that has a YANG
// default to that default, leaves every set leaf unchanged, does the same inside list
// entries, and a tree that validated before still validates afterwards.
//
//gosym:maxpaths=200000
func H_C33_defaults() {
	d := &V_C_D{}
	var du32 uint32
	var di8 int8
	var dstr string
	var dbool bool
	setU, setI, setS, setB := symBool("du32.set"), symBool("di8.set"), symBool("dstr.set"), symBool("dbool.set")
	if setU {
		du32 = symUint32("du32")
		symAssume(du32 >= 1 && du32 <= 100)
		d.Du32 = &du32
	}
	if setI {
		di8 = symInt8("di8")
		d.Di8 = &di8
	}
	if setS {
		dstr = "zz"
		d.Dstr = &dstr
	}
	if setB {
		dbool = symBool("dbool")
		d.Dbool = &dbool
	}
	col := []E_V_Colour{0, V_Colour_RED, V_Colour_BLUE}[symChoose("dcol", 3)]
	d.Dcol = col
	nodef := symBool("nodef.set")
	if nodef {
		s := "n"
		d.Nodef = &s
	}
	// the other case of the choice is populated
	caseTwo := symBool("c2.set")
	if caseTwo {
		s := "t"
		d.C2 = &s
	}
	var dv *uint16
	if symBool("dl") {
		k := "k"
		e := &V_C_D_Dl{K: &k}
		if symBool("dl.dv.set") {
			v := symUint16("dl.dv")
			dv = &v
			e.Dv = dv
		}
		d.Dl = map[string]*V_C_D_Dl{"k": e}
	}
	before := d.ΛValidate() == nil
	d.PopulateDefaults()
	symReach("populated")
	symAssert(d.Du32 != nil && *d.Du32 == map[bool]uint32{true: du32, false: 42}[setU], "du32: set value kept, else default 42")
	symAssert(d.Di8 != nil && *d.Di8 == map[bool]int8{true: di8, false: -7}[setI], "di8: set value kept, else default -7")
	symAssert(d.Dstr != nil && *d.Dstr == map[bool]string{true: "zz", false: "abc"}[setS], "dstr: set value kept, else default abc")
	symAssert(d.Dbool != nil && *d.Dbool == (setB && dbool || !setB), "dbool: set value kept, else default true")
	if col == 0 {
		symAssert(d.Dcol == V_Colour_GREEN, "dcol: default GREEN when unset")
	} else {
		symAssert(d.Dcol == col, "dcol: set value kept")
	}
	symAssert(d.Did == V_BASE_ID_ID_B, "did: identityref default")
	symAssert(d.Ddec != nil && *d.Ddec == 2.5, "ddec: decimal64 default 2.50")
	symAssert((d.Nodef != nil) == nodef, "a leaf without default must not be touched")
	symAssert(d.Dun == UnionUint8(1), "union default 1 must be the uint8 member value 1")
	symAssert(d.Dus == UnionString("x:y"), "union (enumeration | string) default \"x:y\" must be the string member value x:y")
	if e := d.Dl["k"]; e != nil {
		if dv != nil {
			symAssert(e.Dv == dv, "set leaf of a list entry kept")
		} else {
			symAssert(e.Dv != nil && *e.Dv == 7, "default inside a list entry")
		}
	}
	symKnown("C33-default-in-unselected-case", caseTwo)
	if before {
		symAssert(d.ΛValidate() == nil, "a tree that validated before PopulateDefaults no longer validates")
	}
}

// H_C33_independent: PopulateDefaults on two fresh trees gives two independent trees
// (a leaf set in one after the call is not visible in the other).
func H_C33_independent() {
	a := &Device{}
	a.PopulateDefaults()
	s := c01S("motd", 1)
	a.C.D.Nodef = &s
	b := &Device{}
	b.PopulateDefaults()
	symReach("populated")
	symAssert(b.C != nil && b.C.D != nil && b.C.D.Nodef == nil, "a leaf without default set in another tree shows up in a freshly populated tree")
	symAssert(!symSharesMemory(a, b), "two populated trees share mutable memory")
}
