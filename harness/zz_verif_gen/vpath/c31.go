//go:build verif

package vpath

import (
	"github.com/openconfig/ygot/ytypes"
)

// H_C31_nested: Unmarshal into a populated tree whose existing list entry holds a nested
// list (compressed p.yang schema: interface[name]/subinterfaces/subinterface[index]).
// Nested entries the JSON does not mention are kept, a mentioned one is merged
// (mentioned leaves overwritten, others kept), a new one is added.
//
//gosym:maxpaths=100000
func H_C31_nested() {
	name := "e0"
	mtu := symUint16("pre.mtu")
	i0, i1 := uint32(0), uint32(1)
	d0, d1 := symStringN("pre.d0", 1), symStringN("pre.d1", 1)
	d := &Device{Interface: map[string]*Interface{
		"e0": {Name: &name, Mtu: &mtu, Subinterface: map[uint32]*Interface_Subinterface{
			0: {Index: &i0, Descr: &d0},
			1: {Index: &i1, Descr: &d1},
		}},
	}}
	// the JSON document mentions interface e0 and one subinterface: 1 (existing) or 2 (new)
	idx := uint32(1 + symChoose("j.index", 2))
	sub := map[string]interface{}{"index": float64(idx), "config": map[string]interface{}{"index": float64(idx)}}
	hasDescr := symBool("j.descr")
	var jd string
	if hasDescr {
		jd = symStringN("j.descrv", 1)
		sub["config"].(map[string]interface{})["descr"] = jd
	}
	entry := map[string]interface{}{
		"name":          "e0",
		"config":        map[string]interface{}{"name": "e0"},
		"subinterfaces": map[string]interface{}{"subinterface": []interface{}{sub}},
	}
	hasMtu := symBool("j.mtu")
	if hasMtu {
		entry["config"].(map[string]interface{})["mtu"] = float64(1400)
	}
	j := map[string]interface{}{"interfaces": map[string]interface{}{"interface": []interface{}{entry}}}
	err := ytypes.Unmarshal(SchemaTree["Device"], d, j)
	symReach("unmarshalled")
	symAssert(err == nil, "a well-formed document is accepted")
	if err != nil {
		return
	}
	e := d.Interface["e0"]
	symAssert(e != nil && len(d.Interface) == 1, "the existing list entry is kept")
	if hasMtu {
		symAssert(e.Mtu != nil && *e.Mtu == 1400, "a mentioned leaf is overwritten")
	} else {
		symAssert(e.Mtu != nil && *e.Mtu == mtu, "a leaf that is not mentioned keeps its value")
	}
	s0 := e.Subinterface[0]
	symAssert(s0 != nil && s0.Descr != nil && *s0.Descr == d0, "a nested list entry that is not mentioned is kept")
	s1 := e.Subinterface[1]
	symAssert(s1 != nil && s1.Descr != nil, "the other existing nested entry is kept")
	if s1 == nil || s1.Descr == nil {
		return
	}
	if idx == 1 {
		symAssert(len(e.Subinterface) == 2, "no nested entry appears or disappears")
		if hasDescr {
			symAssert(*s1.Descr == jd, "a mentioned leaf of the nested entry is overwritten")
		} else {
			symAssert(*s1.Descr == d1, "a leaf of the nested entry that is not mentioned keeps its value")
		}
	} else {
		symAssert(*s1.Descr == d1, "an existing nested entry is untouched by the addition of another")
		s2 := e.Subinterface[2]
		symAssert(len(e.Subinterface) == 3 && s2 != nil && s2.Index != nil && *s2.Index == 2, "the new nested entry is added under its key")
		if hasDescr && s2 != nil {
			symAssert(s2.Descr != nil && *s2.Descr == jd, "the new nested entry carries the leaf of the document")
		}
	}
}
