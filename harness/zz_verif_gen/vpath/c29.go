//go:build verif

package vpath

import (
	gpb "github.com/openconfig/gnmi/proto/gnmi"
	"github.com/openconfig/ygot/ygot"
)

func c29Elems(p *gpb.Path) []*gpb.PathElem {
	if p == nil {
		return nil
	}
	return p.Elem
}

// c29Check resolves the path struct and compares it with the expected data-tree path.
func c29Check(n ygot.PathStruct, want []*gpb.PathElem) {
	p, _, errs := ygot.ResolvePath(n)
	symAssert(len(errs) == 0, "ResolvePath reports errors for a generated accessor chain")
	got := c29Elems(p)
	symAssert(len(got) == len(want), "resolved path has the wrong number of elements")
	for i := range want {
		symAssert(got[i].Name == want[i].Name, "element name differs from the data-tree path")
		symAssert(len(got[i].Key) == len(want[i].Key), "number of keys differs")
		for k, v := range want[i].Key {
			g, ok := got[i].Key[k]
			symAssert(ok && g == v, "key value differs from the value passed to the accessor")
		}
	}
}

func c29E(name string, kv ...string) *gpb.PathElem {
	e := &gpb.PathElem{Name: name}
	for i := 0; i+1 < len(kv); i += 2 {
		if e.Key == nil {
			e.Key = map[string]string{}
		}
		e.Key[kv[i]] = kv[i+1]
	}
	return e
}

// H_C29_paths: every accessor chain of the generated path API for p.yang resolves to
// the data-tree path of its node (compressed-out config/state and surrounding
// containers re-inserted), keys appear as passed, wildcard accessors give "*".
//
//gosym:maxpaths=100000
func H_C29_paths() {
	root := DeviceRoot("")
	name := symString("name", 2)
	idx := symUint32("index")
	addr := symString("addr", 2)
	seq := symInt64("seq")
	proto := []E_P_Proto{P_Proto_TCP, P_Proto_UDP}[symChoose("proto", 2)]
	protoName := []string{"TCP", "UDP"}[int(proto)-1]
	switch symChoose("chain", 12) {
	case 0:
		c29Check(root.System().Hostname(), []*gpb.PathElem{c29E("system"), c29E("config"), c29E("hostname")})
	case 1:
		c29Check(root.System().Uptime(), []*gpb.PathElem{c29E("system"), c29E("state"), c29E("uptime")})
	case 2:
		c29Check(root.System().Ntp().Server(addr).Port(), []*gpb.PathElem{c29E("system"), c29E("ntp"), c29E("servers"), c29E("server", "address", addr), c29E("config"), c29E("port")})
	case 3:
		c29Check(root.System().Ntp().ServerAny().Address(), []*gpb.PathElem{c29E("system"), c29E("ntp"), c29E("servers"), c29E("server", "address", "*"), c29E("config"), c29E("address")})
	case 4:
		c29Check(root.Interface(name).Mtu(), []*gpb.PathElem{c29E("interfaces"), c29E("interface", "name", name), c29E("config"), c29E("mtu")})
	case 5:
		c29Check(root.InterfaceAny().Name(), []*gpb.PathElem{c29E("interfaces"), c29E("interface", "name", "*"), c29E("config"), c29E("name")})
	case 6:
		c29Check(root.Interface(name).Subinterface(idx).Descr(), []*gpb.PathElem{c29E("interfaces"), c29E("interface", "name", name), c29E("subinterfaces"), c29E("subinterface", "index", symUDecimal(uint64(idx))), c29E("config"), c29E("descr")})
	case 7:
		c29Check(root.InterfaceAny().Subinterface(idx).Index(), []*gpb.PathElem{c29E("interfaces"), c29E("interface", "name", "*"), c29E("subinterfaces"), c29E("subinterface", "index", symUDecimal(uint64(idx))), c29E("config"), c29E("index")})
	case 8:
		c29Check(root.Acl().Entry(seq, proto).Action(), []*gpb.PathElem{c29E("acl"), c29E("entries"), c29E("entry", "seq", symDecimal(seq), "proto", protoName), c29E("config"), c29E("action")})
	case 9:
		c29Check(root.Acl().EntryAnyProto(seq).Seq(), []*gpb.PathElem{c29E("acl"), c29E("entries"), c29E("entry", "seq", symDecimal(seq), "proto", "*"), c29E("config"), c29E("seq")})
	case 10:
		c29Check(root.Acl().EntryAnySeq(proto).Proto(), []*gpb.PathElem{c29E("acl"), c29E("entries"), c29E("entry", "seq", "*", "proto", protoName), c29E("config"), c29E("proto")})
	case 11:
		c29Check(root.Interface(name), []*gpb.PathElem{c29E("interfaces"), c29E("interface", "name", name)})
	}
	symReach("resolved")
}

// H_C29_deep: chains through 1..9 nested lists ending in a leaf under config (2
// elements) or directly under the list (1 element): paths of 4..21 elements.
func H_C29_deep() {
	root := DeviceRoot("")
	k := symString("k", 1)
	depth := 1 + symChoose("depth", 9)
	direct := symBool("direct")
	want := []*gpb.PathElem{c29E("deep")}
	for i := 1; i <= depth; i++ {
		want = append(want, c29E("l"+string(rune('0'+i))+"s"), c29E("l"+string(rune('0'+i)), "k", k))
	}
	if direct {
		want = append(want, c29E("w"+string(rune('0'+depth))))
	} else {
		want = append(want, c29E("config"), c29E("v"+string(rune('0'+depth))))
	}
	var n ygot.PathStruct
	l1 := root.Deep().L1(k)
	switch {
	case depth == 1 && direct:
		n = l1.W1()
	case depth == 1:
		n = l1.V1()
	case depth == 2 && direct:
		n = l1.L2(k).W2()
	case depth == 2:
		n = l1.L2(k).V2()
	case depth == 3 && direct:
		n = l1.L2(k).L3(k).W3()
	case depth == 3:
		n = l1.L2(k).L3(k).V3()
	case depth == 4 && direct:
		n = l1.L2(k).L3(k).L4(k).W4()
	case depth == 4:
		n = l1.L2(k).L3(k).L4(k).V4()
	case depth == 5 && direct:
		n = l1.L2(k).L3(k).L4(k).L5(k).W5()
	case depth == 5:
		n = l1.L2(k).L3(k).L4(k).L5(k).V5()
	case depth == 6 && direct:
		n = l1.L2(k).L3(k).L4(k).L5(k).L6(k).W6()
	case depth == 6:
		n = l1.L2(k).L3(k).L4(k).L5(k).L6(k).V6()
	case depth == 7 && direct:
		n = l1.L2(k).L3(k).L4(k).L5(k).L6(k).L7(k).W7()
	case depth == 7:
		n = l1.L2(k).L3(k).L4(k).L5(k).L6(k).L7(k).V7()
	case depth == 8 && direct:
		n = l1.L2(k).L3(k).L4(k).L5(k).L6(k).L7(k).L8(k).W8()
	case depth == 8:
		n = l1.L2(k).L3(k).L4(k).L5(k).L6(k).L7(k).L8(k).V8()
	case depth == 9 && direct:
		n = l1.L2(k).L3(k).L4(k).L5(k).L6(k).L7(k).L8(k).L9(k).W9()
	case depth == 9:
		n = l1.L2(k).L3(k).L4(k).L5(k).L6(k).L7(k).L8(k).L9(k).V9()
	}
	c29Check(n, want)
	symReach("resolved")
}
