//go:build verif

package vpath

import (
	"github.com/openconfig/ygot/ytypes"
)

var c20pNumbers = []float64{1, -1, 1.5, 70000}

// c20pShape: a JSON value of depth <= depth (null, bool, number, string, array or
// object with 0..1 members; object members named from names).
func c20pShape(tag string, depth int, names []string) interface{} {
	kinds := 4
	if depth > 0 {
		kinds = 6
	}
	switch symChoose(tag+"kind", kinds) {
	case 0:
		return nil
	case 1:
		return symBool(tag + "b")
	case 2:
		return c20pNumbers[symChoose(tag+"num", len(c20pNumbers))]
	case 3:
		return symString(tag+"s", 1)
	case 4:
		if symBool(tag + "emptyArr") {
			return []interface{}{}
		}
		return []interface{}{c20pShape(tag+"e.", depth-1, names)}
	}
	if symBool(tag + "emptyObj") {
		return map[string]interface{}{}
	}
	return map[string]interface{}{names[symChoose(tag+"name", len(names))]: c20pShape(tag+"m.", depth-1, names)}
}

// H_C20_unmarshal_compressed: a compressed-schema list entry whose key leaf is
// reachable through two data-tree paths ("config/name|name"): both locations carry an
// arbitrary JSON value (scalars, arrays, objects). ytypes.Unmarshal returns normally.
//
//gosym:maxpaths=400000
func H_C20_unmarshal_compressed() {
	names := []string{"name", "mtu", "bogus"}
	tree := map[string]interface{}{}
	if symBool("hasName") {
		tree["name"] = c20pShape("n.", 1, names)
	}
	if symBool("hasConfig") {
		cfg := map[string]interface{}{}
		if symBool("hasConfigName") {
			cfg["name"] = c20pShape("cn.", 1, names)
		}
		if symBool("hasMtu") {
			cfg["mtu"] = c20pShape("mtu.", 0, names)
		}
		tree["config"] = cfg
	} else if symBool("configNotObject") {
		tree["config"] = c20pShape("c.", 1, names)
	}
	var opts []ytypes.UnmarshalOpt
	if symBool("ignoreExtra") {
		opts = append(opts, &ytypes.IgnoreExtraFields{})
	}
	if symBool("shadow") {
		opts = append(opts, &ytypes.PreferShadowPath{})
	}
	i := &Interface{}
	_ = ytypes.Unmarshal(SchemaTree["Interface"], i, tree, opts...)
	symReach("returned")
}

// H_C20_unmarshal_compressed_list: the whole list under the root with entries of
// arbitrary shape.
//
//gosym:maxpaths=400000
func H_C20_unmarshal_compressed_list() {
	names := []string{"name", "config", "interface", "bogus"}
	tree := map[string]interface{}{"interfaces": c20pShape("i.", 3, names)}
	d := &Device{}
	_ = ytypes.Unmarshal(SchemaTree["Device"], d, tree)
	symReach("returned")
}
