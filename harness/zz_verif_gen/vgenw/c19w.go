//go:build verif

package vgenw

import (
	"github.com/openconfig/ygot/ygot"
)

// H_C19_lists: an unkeyed list and a leaf-list of wrapper-struct unions (identityref |
// string) rendered with ConstructIETFJSON: entry members carry no module prefix when
// their module equals the parent's, identityref members are module:identity exactly
// when module names are appended.
func H_C19_lists() {
	appendMod := symBool("append_module")
	cfg := &ygot.RFC7951JSONConfig{AppendModuleName: appendMod}
	name := symString("name", 2)
	state := symUint8("state")
	st := &V_C_St{Ul: []*V_C_St_Ul{{Name: &name, State: &state}}}
	useID := symBool("identity_member")
	str := symString("member", 2)
	if useID {
		st.Ull = []V_C_St_Ull_Union{&V_C_St_Ull_Union_E_V_BASE_ID{E_V_BASE_ID: V_BASE_ID_ID_A}}
	} else {
		st.Ull = []V_C_St_Ull_Union{&V_C_St_Ull_Union_String{String: str}}
	}
	j, err := ygot.ConstructIETFJSON(st, cfg)
	symReach("rendered")
	symAssert(err == nil, "ConstructIETFJSON fails on a valid tree")
	key := func(n string) string {
		if appendMod {
			return "v:" + n
		}
		return n
	}
	ul, ok := j[key("ul")].([]interface{})
	symAssert(ok && len(ul) == 1, "unkeyed list must be a JSON array of its entries")
	e, ok := ul[0].(map[string]interface{})
	symAssert(ok && len(e) == 2, "list entry must be an object with its two leaves")
	n, ok := e["name"].(string) // same module as the parent list: no prefix
	symAssert(ok && n == name, "entry member names must not be module-qualified; string leaf value")
	s, ok := e["state"].(float64)
	symAssert(ok && s == float64(state), "uint8 leaf must be a JSON number")
	ull, ok := j[key("ull")].([]interface{})
	symAssert(ok && len(ull) == 1, "leaf-list must be a JSON array")
	m, ok := ull[0].(string)
	symAssert(ok, "union member must be rendered as a string here")
	if useID {
		want := "ID_A"
		if appendMod {
			want = "v:ID_A"
		}
		symAssert(m == want, "identityref union member must be module:identity exactly when module names are appended")
	} else {
		symAssert(m == str, "string union member value")
	}
}
