//go:build verif

// Package vdiff holds the schema-aware gnmidiff harnesses: gnmidiff with the schema of
// the generated (compressed, OpenConfig-style) package zz_verif_gen/vpath.
package vdiff

import (
	"unicode/utf8"

	gpb "github.com/openconfig/gnmi/proto/gnmi"
	"github.com/openconfig/ygot/gnmidiff"
	"github.com/openconfig/ygot/ygot"
	"github.com/openconfig/ygot/ytypes"
	"github.com/openconfig/ygot/zz_verif_gen/vpath"
)

func vE(name string, kv ...string) *gpb.PathElem {
	e := &gpb.PathElem{Name: name}
	for i := 0; i+1 < len(kv); i += 2 {
		if e.Key == nil {
			e.Key = map[string]string{}
		}
		e.Key[kv[i]] = kv[i+1]
	}
	return e
}

func vP(e ...*gpb.PathElem) *gpb.Path { return &gpb.Path{Elem: e} }

func vStr(s string) *gpb.TypedValue {
	return &gpb.TypedValue{Value: &gpb.TypedValue_StringVal{StringVal: s}}
}
func vUint(u uint64) *gpb.TypedValue {
	return &gpb.TypedValue{Value: &gpb.TypedValue_UintVal{UintVal: u}}
}
func vJSON(s string) *gpb.TypedValue {
	return &gpb.TypedValue{Value: &gpb.TypedValue_JsonIetfVal{JsonIetfVal: []byte(s)}}
}

func vSchema() *ytypes.Schema {
	s, err := vpath.Schema()
	symAssume(err == nil)
	return s
}

func vKey(name string, max int) string {
	k := symString(name, max)
	symAssume(len(k) > 0 && utf8.ValidString(k))
	return k
}

type vLeaf struct {
	elems []*gpb.PathElem
	val   *gpb.TypedValue
}

// vSlot: leaf i of the vocabulary over p.yang with a fresh symbolic value.
func vSlot(i int, tag, key string) vLeaf {
	switch i {
	case 0:
		return vLeaf{[]*gpb.PathElem{vE("interfaces"), vE("interface", "name", key), vE("config"), vE("mtu")}, vUint(uint64(symUint16(tag + "mtu")))}
	case 1:
		return vLeaf{[]*gpb.PathElem{vE("system"), vE("config"), vE("hostname")}, vStr(symString(tag+"hostname", 2))}
	}
	return vLeaf{[]*gpb.PathElem{vE("system"), vE("ntp"), vE("servers"), vE("server", "address", "s1"), vE("config"), vE("port")}, vUint(uint64(symUint16(tag + "port")))}
}

func vRequest(tag, key string, slots int) *gpb.SetRequest {
	req := &gpb.SetRequest{}
	for i := 0; i < slots; i++ {
		if symBool(tag + "has") {
			l := vSlot(i, tag, key)
			req.Update = append(req.Update, &gpb.Update{Path: vP(l.elems...), Val: l.val})
		}
	}
	switch symChoose(tag+"del", 3) {
	case 1:
		req.Delete = append(req.Delete, vP(vE("system"), vE("ntp")))
	case 2:
		req.Delete = append(req.Delete, vP(vE("interfaces"), vE("interface", "name", key)))
	}
	return req
}

func vEmpty(d gnmidiff.SetRequestIntentDiff) bool {
	return len(d.MissingUpdates) == 0 && len(d.ExtraUpdates) == 0 && len(d.MismatchedUpdates) == 0 &&
		len(d.MissingDeletes) == 0 && len(d.ExtraDeletes) == 0
}

// H_C22_schema_rewrites: with a schema, DiffSetRequest(a, a) is empty and intent-preserving
// rewrites (reordering, leaf replace for leaf update, duplicated identical update, prefix
// split) diff as empty.
//
//gosym:maxpaths=200000
func H_C22_schema_rewrites() {
	schema := vSchema()
	key := vKey("k", 1+symTier())
	req := vRequest("r.", key, 3)
	rw := &gpb.SetRequest{}
	for _, d := range req.Delete {
		rw.Delete = append(rw.Delete, vP(d.Elem...))
	}
	for _, u := range req.Update {
		rw.Update = append(rw.Update, &gpb.Update{Path: vP(u.Path.Elem...), Val: u.Val})
	}
	how := symChoose("how", 5)
	switch how {
	case 1:
		for i, j := 0, len(rw.Update)-1; i < j; i, j = i+1, j-1 {
			rw.Update[i], rw.Update[j] = rw.Update[j], rw.Update[i]
		}
	case 2:
		if len(rw.Update) > 0 {
			rw.Replace = append(rw.Replace, rw.Update[0])
			rw.Update = rw.Update[1:]
		}
	case 3:
		if len(rw.Update) > 0 {
			u := rw.Update[len(rw.Update)-1]
			rw.Update = append(rw.Update, &gpb.Update{Path: vP(u.Path.Elem...), Val: u.Val})
		}
	case 4:
		// prefix split: only when every path starts with the same element
		if len(rw.Update) == 0 || len(rw.Delete) > 0 {
			return
		}
		first := rw.Update[0].Path.Elem[0].Name
		for _, u := range rw.Update {
			if u.Path.Elem[0].Name != first {
				return
			}
		}
		rw.Prefix = vP(vE(first))
		for _, u := range rw.Update {
			u.Path = vP(u.Path.Elem[1:]...)
		}
	}
	d, err := gnmidiff.DiffSetRequest(req, rw, schema)
	symReach("diffed")
	if err != nil {
		return
	}
	symReach("no error")
	symAssert(vEmpty(d), "requests with the same intent must have an empty diff (with schema)")
	// Not part of the property, kept as a sanity check of the harness where it applies: a
	// key containing a backslash does not survive the path-string round trip the schema
	// arm makes (known finding C08-backslash), and the update is then dropped from both
	// intents - the diff is still empty, which is all C22 states.
	if !symContains(key, "\\") {
		symAssert(len(d.CommonUpdates) == len(req.Update) && len(d.CommonDeletes) == len(req.Delete), "every entry of the request is common")
	}
}

var vDocs = []struct {
	key string
	doc string // JSON at /system/ntp (a node of the compressed GoStructs)
}{
	{"s0", `{"servers":{"server":[{"address":"s0","config":{"address":"s0","port":1500}}]}}`},
	{"a]", `{"servers":{"server":[{"address":"a]","config":{"address":"a]","port":1500}}]}}`},
	{"a=", `{"p:servers":{"server":[{"address":"a=","config":{"address":"a=","port":1500}}]}}`},
}

// H_C22_schema_json: with a schema, one JSON update holding a list entry against the
// equivalent leaf updates; and the same pair compared with and without the schema.
//
//gosym:maxpaths=200000
func H_C22_schema_json() {
	schema := vSchema()
	dc := vDocs[symChoose("doc", len(vDocs))]
	key := symStringN("k", len(dc.key))
	symAssume(utf8.ValidString(key))
	port := symUint16("port")
	a := &gpb.SetRequest{Update: []*gpb.Update{{Path: vP(vE("system"), vE("ntp")), Val: vJSON(dc.doc)}}}
	srv := []*gpb.PathElem{vE("system"), vE("ntp"), vE("servers"), vE("server", "address", key)}
	b := &gpb.SetRequest{Update: []*gpb.Update{
		{Path: vP(append(srv[:4:4], vE("address"))...), Val: vStr(key)},
		{Path: vP(append(srv[:4:4], vE("config"), vE("address"))...), Val: vStr(key)},
		{Path: vP(append(srv[:4:4], vE("config"), vE("port"))...), Val: vUint(uint64(port))},
	}}
	if symBool("swap") {
		a, b = b, a
	}
	d, err := gnmidiff.DiffSetRequest(a, b, schema)
	symReach("diffed")
	// (with a schema, keys containing ']' make util.FindLeafRefSchema fail: the property
	// only speaks about requests that are diffed without error)
	if err != nil {
		return
	}
	if key == dc.key {
		symReach("same entry")
		symAssert(len(d.MissingUpdates) == 0 && len(d.ExtraUpdates) == 0, "same leaves written by both encodings: nothing missing or extra (with schema)")
		want := 0
		if port != 1500 {
			want = 1
		}
		symAssert(len(d.MismatchedUpdates) == want, "exactly the leaves whose values differ are mismatched (with schema)")
	}
	// with and without the schema the verdict "empty / not empty" agrees
	d2, err2 := gnmidiff.DiffSetRequest(a, b, nil)
	if err2 == nil {
		symAssert(vEmpty(d) == vEmpty(d2), "the diff is empty with a schema exactly when it is empty without")
	}
}

// H_C23_schema_edits: DiffSetRequestToNotifications with a schema: notifications carrying
// exactly the written leaves give an all-common diff; removing / changing / adding (under
// a deleted subtree) one leaf reports exactly that leaf.
//
//gosym:maxpaths=200000
func H_C23_schema_edits() {
	schema := vSchema()
	key := vKey("k", 1)
	req := vRequest("r.", key, 2+symTier()) // quick: mtu + hostname; thorough: + ntp port
	var leaves []vLeaf
	for _, u := range req.Update {
		leaves = append(leaves, vLeaf{u.Path.Elem, u.Val})
	}
	carried := append([]vLeaf(nil), leaves...)
	edit := symChoose("edit", 4)
	var edited string
	pathStr := func(e []*gpb.PathElem) string {
		s, err := ygot.PathToString(vP(e...))
		symAssume(err == nil)
		return s
	}
	switch edit {
	case 1:
		if len(leaves) == 0 {
			return
		}
		i := symChoose("which", len(leaves))
		edited = pathStr(leaves[i].elems)
		carried = append(carried[:i:i], carried[i+1:]...)
	case 2:
		if len(leaves) == 0 {
			return
		}
		i := symChoose("which", len(leaves))
		edited = pathStr(leaves[i].elems)
		var nv *gpb.TypedValue
		if s, ok := leaves[i].val.Value.(*gpb.TypedValue_StringVal); ok {
			n := symString("x.str", 2)
			symAssume(n != s.StringVal)
			nv = vStr(n)
		} else {
			n := symUint16("x.uint")
			symAssume(uint64(n) != leaves[i].val.GetUintVal())
			nv = vUint(uint64(n))
		}
		carried[i] = vLeaf{leaves[i].elems, nv}
	case 3:
		if len(req.Delete) == 0 {
			return
		}
		var extra []*gpb.PathElem
		if req.Delete[0].Elem[0].Name == "system" {
			extra = []*gpb.PathElem{vE("system"), vE("ntp"), vE("servers"), vE("server", "address", "s9"), vE("config"), vE("port")}
			carried = append(carried, vLeaf{extra, vUint(uint64(symUint16("x.port")))})
		} else {
			extra = []*gpb.PathElem{vE("interfaces"), vE("interface", "name", key), vE("subinterfaces"), vE("subinterface", "index", "7"), vE("config"), vE("descr")}
			carried = append(carried, vLeaf{extra, vStr(symString("x.descr", 1))})
		}
		edited = pathStr(extra)
	}
	n := &gpb.Notification{}
	for _, l := range carried {
		n.Update = append(n.Update, &gpb.Update{Path: vP(l.elems...), Val: l.val})
	}
	d, err := gnmidiff.DiffSetRequestToNotifications(req, []*gpb.Notification{n}, schema)
	symReach("diffed")
	if err != nil {
		return
	}
	nMissing, nMismatched, nExtra := 0, 0, 0
	switch edit {
	case 1:
		nMissing = 1
		_, ok := d.MissingUpdates[edited]
		symAssert(ok, "the removed leaf must be reported as missing (with schema)")
	case 2:
		nMismatched = 1
		_, ok := d.MismatchedUpdates[edited]
		symAssert(ok, "the changed leaf must be reported as mismatched (with schema)")
	case 3:
		nExtra = 1
		_, ok := d.ExtraUpdates[edited]
		symAssert(ok, "the leaf added under a deleted subtree must be reported as extra (with schema)")
	}
	symAssert(len(d.MissingUpdates) == nMissing, "no other leaf may be reported as missing")
	symAssert(len(d.MismatchedUpdates) == nMismatched, "no other leaf may be reported as mismatched")
	symAssert(len(d.ExtraUpdates) == nExtra, "no other leaf may be reported as extra")
	symAssert(len(d.CommonUpdates) == len(leaves)-nMissing-nMismatched, "every untouched leaf is common")
}
