//go:build verif

// Package vtwo holds harnesses that need two generated packages at once.
package vtwo

import (
	"reflect"

	"github.com/openconfig/ygot/ytypes"
	"github.com/openconfig/ygot/zz_verif_gen/vgen"
	"github.com/openconfig/ygot/zz_verif_gen/vgenw"
)

// H_C17_twopkgs: two generated packages in one process that each define an enumeration
// type of the same Go name (E_V_Colour) with different value tables (vgenw is generated
// from a revision of the module with other enum values): parsing a name for one type
// never yields the other type's value, in either order of use.
func H_C17_twopkgs() {
	i := symChoose("name", 3)
	name := []string{"RED", "GREEN", "BLUE"}[i]
	want := []vgen.E_V_Colour{vgen.V_Colour_RED, vgen.V_Colour_GREEN, vgen.V_Colour_BLUE}[i]
	wantW := []vgenw.E_V_Colour{vgenw.V_Colour_RED, vgenw.V_Colour_GREEN, vgenw.V_Colour_BLUE}[i]
	parse := func() {
		v, err := ytypes.StringToType(reflect.TypeOf(vgen.E_V_Colour(0)), name)
		symAssert(err == nil && v.Interface() == want, "a defined name parses to its own type's value")
	}
	parseW := func() {
		v, err := ytypes.StringToType(reflect.TypeOf(vgenw.E_V_Colour(0)), name)
		symAssert(err == nil && v.Interface() == wantW, "a defined name parses to its own type's value (second package)")
	}
	if symBool("other package first") {
		parseW()
		parse()
	} else {
		parse()
		parseW()
	}
	symReach("parsed")
}
