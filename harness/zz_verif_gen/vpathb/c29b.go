//go:build verif

package vpathb

import (
	"github.com/openconfig/ygot/ygot"
)

// H_C29_builder: builder-style key accessors (WithSeq/WithProto): keys set after a
// first resolution of the wildcard node are visible in later resolutions.
func H_C29_builder() {
	seq := symInt64("seq")
	any := DeviceRoot("").Acl().EntryAny()
	p0, _, errs := ygot.ResolvePath(any)
	symAssert(len(errs) == 0 && p0.Elem[2].Key["seq"] == "*" && p0.Elem[2].Key["proto"] == "*", "wildcard node resolves to '*' keys")
	withSeq := any.WithSeq(seq)
	p1, _, errs := ygot.ResolvePath(withSeq.Action())
	symReach("resolved")
	symAssert(len(errs) == 0 && len(p1.Elem) == 5, "chain through the builder resolves")
	symAssert(symDecimalIs(p1.Elem[2].Key["seq"], uint64(seq), true), "a key set with WithSeq must appear in the resolved path")
	symAssert(p1.Elem[2].Key["proto"] == "*", "the key left unset stays a wildcard")
	both := DeviceRoot("").Acl().EntryAny().WithProto(P_Proto_UDP).WithSeq(seq)
	p2, _, _ := ygot.ResolvePath(both)
	symAssert(p2.Elem[2].Key["proto"] == "UDP" && symDecimalIs(p2.Elem[2].Key["seq"], uint64(seq), true), "both builder keys appear")
}
