//go:build verif

package util

import (
	"unicode/utf8"
)

// c06Esc is the reference anchoring model of the body: '$' that is neither escaped nor
// the last character and '^' that is neither escaped, first, nor directly after '['
// are escaped; everything else is copied.
func c06Esc(p string) string {
	out := ""
	inEscape := false
	var prev rune
	for i, ch := range p {
		last := i+utf8.RuneLen(ch) == len(p)
		switch ch {
		case '$':
			if !inEscape && !last {
				out += "\\"
			}
		case '^':
			if !inEscape && prev != '[' && i != 0 {
				out += "\\"
			}
		}
		inEscape = !inEscape && ch == '\\'
		out += string(ch)
		prev = ch
	}
	return out
}

// H_C06_fixre: fixYangRegexp wraps every non-empty pattern that does not carry its own
// leading '^' / trailing '$' as ^( body )$ with body = the pattern with stray anchors
// escaped; in particular the added parenthesis is always closed and the result always
// ends in the '$' anchor, whatever characters the pattern contains.
//
//gosym:maxpaths=300000
func H_C06_fixre() {
	max := 3
	if symTier() > 0 {
		max = 5
	}
	p := symString("p", max)
	symAssume(len(p) > 0)
	symAssume(utf8.ValidString(p))
	got := fixYangRegexp(p)
	symReach("fixed")
	ownHead := p[0] == '^'
	// a trailing '$' is the pattern's own anchor unless it is escaped
	bs := 0
	for i := len(p) - 2; i >= 0 && p[i] == '\\'; i-- {
		bs++
	}
	ownTail := p[len(p)-1] == '$' && bs%2 == 0
	body := c06Esc(p)
	want := body
	switch {
	case !ownHead && !ownTail:
		want = "^(" + body + ")$"
	case !ownHead && ownTail:
		want = "^(" + body[:len(body)-1] + ")$"
	case ownHead && !ownTail:
		want = body + "$"
	}
	symAssert(got == want, "fixYangRegexp result is not the anchored pattern")
}
