//go:build verif

package util

import (
	"fmt"

	gpb "github.com/openconfig/gnmi/proto/gnmi"
)

var c09KeyNames = []string{"k1", "k2", "k3"}

// c09Elem builds a PathElem with a symbolic 1-byte name and up to nkeys keys, each
// absent or holding a symbolic non-empty 1-byte value ('*' is the wildcard).
func c09Elem(tag string, nkeys int) *gpb.PathElem {
	e := &gpb.PathElem{Name: symStringN(tag+".name", 1)}
	for k := 0; k < nkeys; k++ {
		if symBool(fmt.Sprintf("%s.has%d", tag, k)) {
			if e.Key == nil {
				e.Key = map[string]string{}
			}
			e.Key[c09KeyNames[k]] = symStringN(fmt.Sprintf("%s.val%d", tag, k), 1)
		}
	}
	return e
}

func c09Path(tag string, maxElems, nkeys int) *gpb.Path {
	n := symChoose(tag+".len", maxElems+1)
	p := &gpb.Path{}
	for i := 0; i < n; i++ {
		p.Elem = append(p.Elem, c09Elem(fmt.Sprintf("%s.e%d", tag, i), nkeys))
	}
	return p
}

// coordinate classes
const (
	c09Eq = iota
	c09Sup
	c09Sub
	c09Dis
)

func c09KeyClass(a, b *gpb.PathElem, k string) int {
	av, aok := a.Key[k]
	bv, bok := b.Key[k]
	aw := !aok || av == "*"
	bw := !bok || bv == "*"
	switch {
	case aw && bw:
		return c09Eq
	case aw:
		return c09Sup
	case bw:
		return c09Sub
	case av == bv:
		return c09Eq
	}
	return c09Dis
}

// c09Oracle is the set relation between the sets of concrete data paths denoted by a and b.
func c09Oracle(a, b *gpb.Path, nkeys int) CompareRelation {
	sup, sub := false, false
	n := len(a.Elem)
	if len(b.Elem) < n {
		n = len(b.Elem)
	}
	for i := 0; i < n; i++ {
		if a.Elem[i].Name != b.Elem[i].Name {
			return Disjoint
		}
		for k := 0; k < nkeys; k++ {
			switch c09KeyClass(a.Elem[i], b.Elem[i], c09KeyNames[k]) {
			case c09Dis:
				return Disjoint
			case c09Sup:
				sup = true
			case c09Sub:
				sub = true
			}
		}
	}
	if len(a.Elem) > len(b.Elem) {
		sub = true
	} else if len(a.Elem) < len(b.Elem) {
		sup = true
	}
	switch {
	case sup && sub:
		return PartialIntersect
	case sup:
		return Superset
	case sub:
		return Subset
	}
	return Equal
}

func c09Swap(r CompareRelation) CompareRelation {
	switch r {
	case Subset:
		return Superset
	case Superset:
		return Subset
	}
	return r
}

// H_C09_compare: ComparePaths agrees with the path-set denotation for every pair of
// paths within the bound and every map iteration order.
//
//gosym:maxpaths=200000
func H_C09_compare() {
	maxElems, nkeys := 2, 2
	if symTier() > 0 {
		maxElems, nkeys = 2, 3
	}
	a := c09Path("a", maxElems, nkeys)
	b := c09Path("b", maxElems, nkeys)
	for _, e := range a.Elem {
		symMapOrder(e.Key)
	}
	for _, e := range b.Elem {
		symMapOrder(e.Key)
	}
	got := ComparePaths(a, b)
	want := c09Oracle(a, b, nkeys)
	symReach("compared")
	symAssert(got == want, "ComparePaths differs from the set relation")
	symAssert(ComparePaths(b, a) == c09Swap(got), "swap law")
}
