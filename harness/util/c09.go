//go:build verif

package util

import (
	"fmt"

	gpb "github.com/openconfig/gnmi/proto/gnmi"
)

var c09KeyNames = []string{"k1", "k2", "k3"}

// c09Elem builds a PathElem with a symbolic 1-byte name and up to nkeys keys, each
// absent or holding a symbolic non-empty 1-byte value ('*' is the wildcard).
func c09Elem(tag string, nkeys int) *gpb.PathElem {
	e := &gpb.PathElem{Name: symStringN(tag+".name", 1)}
	for k := 0; k < nkeys; k++ {
		if symBool(fmt.Sprintf("%s.has%d", tag, k)) {
			if e.Key == nil {
				e.Key = map[string]string{}
			}
			e.Key[c09KeyNames[k]] = symStringN(fmt.Sprintf("%s.val%d", tag, k), 1)
		}
	}
	return e
}

func c09Path(tag string, maxElems, nkeys int) *gpb.Path {
	n := symChoose(tag+".len", maxElems+1)
	p := &gpb.Path{}
	for i := 0; i < n; i++ {
		p.Elem = append(p.Elem, c09Elem(fmt.Sprintf("%s.e%d", tag, i), nkeys))
	}
	return p
}

// coordinate classes
const (
	c09Eq = iota
	c09Sup
	c09Sub
	c09Dis
)

func c09KeyClass(a, b *gpb.PathElem, k string) int {
	av, aok := a.Key[k]
	bv, bok := b.Key[k]
	aw := !aok || av == "*"
	bw := !bok || bv == "*"
	switch {
	case aw && bw:
		return c09Eq
	case aw:
		return c09Sup
	case bw:
		return c09Sub
	case av == bv:
		return c09Eq
	}
	return c09Dis
}

// c09Oracle is the set relation between the sets of concrete data paths denoted by a and b.
func c09Oracle(a, b *gpb.Path, nkeys int) CompareRelation {
	sup, sub := false, false
	n := len(a.Elem)
	if len(b.Elem) < n {
		n = len(b.Elem)
	}
	for i := 0; i < n; i++ {
		if a.Elem[i].Name != b.Elem[i].Name {
			return Disjoint
		}
		for k := 0; k < nkeys; k++ {
			switch c09KeyClass(a.Elem[i], b.Elem[i], c09KeyNames[k]) {
			case c09Dis:
				return Disjoint
			case c09Sup:
				sup = true
			case c09Sub:
				sub = true
			}
		}
	}
	if len(a.Elem) > len(b.Elem) {
		sub = true
	} else if len(a.Elem) < len(b.Elem) {
		sup = true
	}
	switch {
	case sup && sub:
		return PartialIntersect
	case sup:
		return Superset
	case sub:
		return Subset
	}
	return Equal
}

func c09Swap(r CompareRelation) CompareRelation {
	switch r {
	case Subset:
		return Superset
	case Superset:
		return Subset
	}
	return r
}

// H_C09_compare: ComparePaths agrees with the path-set denotation for every pair of
// paths within the bound and every map iteration order.
//
//gosym:maxpaths=200000
//gosym:maxpaths.thorough=3000000
//gosym:minutes.thorough=40
//gosym:replay_repeat=60
func H_C09_compare() {
	maxElems, nkeys := 2, 2
	if symTier() > 0 {
		maxElems, nkeys = 2, 3
	}
	c09Compare(maxElems, nkeys)
}

// H_C09_compare3: single-element paths (or empty) with three key names.
//
//gosym:maxpaths=200000
//gosym:replay_repeat=60
func H_C09_compare3() {
	c09Compare(1, 3)
}

func c09Compare(maxElems, nkeys int) {
	a := c09Path("a", maxElems, nkeys)
	b := c09Path("b", maxElems, nkeys)
	for _, e := range a.Elem {
		symMapOrder(e.Key)
	}
	for _, e := range b.Elem {
		symMapOrder(e.Key)
	}
	got := ComparePaths(a, b)
	want := c09Oracle(a, b, nkeys)
	symReach("compared")
	symAssert(got == want, "ComparePaths differs from the set relation")
	symAssert(ComparePaths(b, a) == c09Swap(got), "swap law")
}

// c09ConcretePath: a wildcard-free path whose elements carry every key.
func c09ConcretePath(tag string, maxElems, nkeys int) *gpb.Path {
	n := symChoose(tag+".len", maxElems+1)
	p := &gpb.Path{}
	for i := 0; i < n; i++ {
		e := &gpb.PathElem{Name: symStringN(fmt.Sprintf("%s.e%d.name", tag, i), 1), Key: map[string]string{}}
		symAssume(e.Name != "*")
		for k := 0; k < nkeys; k++ {
			v := symStringN(fmt.Sprintf("%s.e%d.val%d", tag, i, k), 1)
			symAssume(v != "*")
			e.Key[c09KeyNames[k]] = v
		}
		p.Elem = append(p.Elem, e)
	}
	return p
}

var c09Origins = []string{"", "openconfig", "other"}

// H_C09_query: for a wildcard-free path p, PathMatchesQuery(p, q) holds exactly when
// q's path set contains p's (q Equal or Superset of p), with "*" element names in q
// acting as wildcards and unset origin matching "openconfig".
//
//gosym:maxpaths=200000
//gosym:replay_repeat=60
func H_C09_query() {
	p := c09ConcretePath("p", 2, 2)
	q := c09Path("q", 2, 2)
	p.Origin = c09Origins[symChoose("p.origin", 3)]
	q.Origin = c09Origins[symChoose("q.origin", 3)]
	for _, e := range q.Elem {
		symMapOrder(e.Key)
	}
	got := PathMatchesQuery(p, q)
	// reference
	want := len(q.Elem) <= len(p.Elem)
	originOK := p.Origin == q.Origin || (p.Origin == "" && q.Origin == "openconfig") || (p.Origin == "openconfig" && q.Origin == "")
	if !originOK {
		want = false
	}
	if want {
		for i, qe := range q.Elem {
			pe := p.Elem[i]
			if qe.Name != "*" && qe.Name != pe.Name {
				want = false
				break
			}
			for k := 0; k < 2; k++ {
				qv, ok := qe.Key[c09KeyNames[k]]
				if ok && qv != "*" && qv != pe.Key[c09KeyNames[k]] {
					want = false
				}
			}
		}
	}
	symReach("queried")
	symAssert(got == want, "PathMatchesQuery differs from query-contains-path")
}

// H_C09_prefix: PathMatchesPathElemPrefix / TrimGNMIPathElemPrefix / PathMatchesPrefix /
// PathPartiallyMatchesPrefix agree with element-wise prefix semantics.
//
//gosym:maxpaths=200000
func H_C09_prefix() {
	path := c09Path("p", 2, 1)
	pfx := c09Path("x", 2, 1)
	path.Origin = c09Origins[symChoose("p.origin", 2)]
	pfx.Origin = c09Origins[symChoose("x.origin", 2)]
	isPrefix := len(pfx.Elem) <= len(path.Elem) && path.Origin == pfx.Origin
	if isPrefix {
		for i := range pfx.Elem {
			if !c09ElemEq(pfx.Elem[i], path.Elem[i]) {
				isPrefix = false
				break
			}
		}
	}
	symReach("prefix")
	symAssert(PathMatchesPathElemPrefix(path, pfx) == isPrefix, "PathMatchesPathElemPrefix differs from element-wise prefix")
	tr := TrimGNMIPathElemPrefix(path, pfx)
	if isPrefix {
		symAssert(len(tr.Elem) == len(path.Elem)-len(pfx.Elem), "TrimGNMIPathElemPrefix length")
		for i := range tr.Elem {
			symAssert(c09ElemEq(tr.Elem[i], path.Elem[len(pfx.Elem)+i]), "TrimGNMIPathElemPrefix element")
		}
		symAssert(len(path.Elem) == symChooseLen(path), "TrimGNMIPathElemPrefix must not modify its input")
	} else {
		symAssert(tr == path, "TrimGNMIPathElemPrefix must return the path unchanged when the prefix does not match")
	}
	// string-slice prefixes compare names only
	var names []string
	for _, e := range pfx.Elem {
		names = append(names, e.Name)
	}
	namePrefix := len(names) <= len(path.Elem)
	partial := true
	for i := range names {
		if i < len(path.Elem) && names[i] != path.Elem[i].Name {
			namePrefix = false
			partial = false
		}
	}
	symAssert(PathMatchesPrefix(path, names) == namePrefix, "PathMatchesPrefix differs from name prefix")
	symAssert(PathPartiallyMatchesPrefix(path, names) == partial, "PathPartiallyMatchesPrefix differs from partial name prefix")
	t2 := TrimGNMIPathPrefix(path, names)
	if namePrefix {
		symAssert(len(t2.Elem) == len(path.Elem)-len(names), "TrimGNMIPathPrefix length")
	} else {
		symAssert(t2 == path, "TrimGNMIPathPrefix must return the path unchanged")
	}
}

func symChooseLen(p *gpb.Path) int { return len(p.Elem) }

func c09ElemEq(a, b *gpb.PathElem) bool {
	if a.Name != b.Name || len(a.Key) != len(b.Key) {
		return false
	}
	for k, v := range a.Key {
		if w, ok := b.Key[k]; !ok || v != w {
			return false
		}
	}
	return true
}

// c09Spare gives the Elem slice of p spare capacity (0..2 extra slots), as a slice
// built by append has.
func c09Spare(tag string, p *gpb.Path) {
	extra := symChoose(tag+".spare", 3)
	s := make([]*gpb.PathElem, len(p.Elem), len(p.Elem)+extra)
	copy(s, p.Elem)
	p.Elem = s
}

// H_C09_join: JoinPaths(prefix, suffix) is the concatenation, Trim inverts it, the
// inputs are unchanged, and a second join on the same prefix does not disturb the
// result of the first (the prefix slice may have spare capacity).
//
//gosym:maxpaths=200000
func H_C09_join() {
	pfx := c09Path("x", 2, 1)
	s1 := c09Path("s", 2, 1)
	s2 := c09Path("t", 1, 1)
	c09Spare("x", pfx)
	pfx.Origin = c09Origins[symChoose("x.origin", 3)]
	s1.Origin = c09Origins[symChoose("s.origin", 3)]
	nPfx := len(pfx.Elem)
	j1, err := JoinPaths(pfx, s1)
	conflict := pfx.Origin != "" && s1.Origin != "" && pfx.Origin != s1.Origin
	symReach("joined")
	symAssert((err != nil) == conflict, "JoinPaths errors exactly on conflicting origins")
	if err != nil {
		return
	}
	wantOrigin := pfx.Origin
	if s1.Origin != "" {
		wantOrigin = s1.Origin
	}
	symAssert(j1.Origin == wantOrigin, "JoinPaths origin")
	j2, _ := JoinPaths(pfx, s2)
	symAssert(j2 != nil, "second join")
	symAssert(len(pfx.Elem) == nPfx, "JoinPaths must not modify the prefix")
	symAssert(len(j1.Elem) == nPfx+len(s1.Elem), "JoinPaths length")
	for i := range j1.Elem {
		if i < nPfx {
			symAssert(j1.Elem[i] == pfx.Elem[i], "JoinPaths prefix element")
		} else {
			symAssert(j1.Elem[i] == s1.Elem[i-nPfx], "JoinPaths suffix element changed (by a later join on the same prefix?)")
		}
	}
}

// H_C09_findprefix: FindPathElemPrefix returns the longest common element prefix.
//
//gosym:maxpaths=200000
func H_C09_findprefix() {
	a := c09Path("a", 2, 1)
	b := c09Path("b", 2, 1)
	c := c09Path("c", 2, 1)
	n := 2 + symChoose("npaths", 2)
	paths := []*gpb.Path{a, b, c}[:n]
	got := FindPathElemPrefix(paths)
	want := 0
	for {
		ok := true
		for _, p := range paths {
			if want >= len(p.Elem) || !c09ElemEq(p.Elem[want], a.Elem[want]) {
				ok = false
				break
			}
		}
		if !ok {
			break
		}
		want++
	}
	symReach("found")
	if want == 0 {
		symAssert(len(got.GetElem()) == 0, "FindPathElemPrefix must be empty when there is no common prefix")
		return
	}
	symAssert(len(got.GetElem()) == want, "FindPathElemPrefix is not the longest common prefix")
	for i := 0; i < want; i++ {
		symAssert(c09ElemEq(got.Elem[i], a.Elem[i]), "FindPathElemPrefix element")
	}
}
