//go:build verif

package ytypes

import (
	"math"

	"github.com/openconfig/goyang/pkg/yang"

	gpb "github.com/openconfig/gnmi/proto/gnmi"
)

var c18SmallKinds = []yang.TypeKind{yang.Yint8, yang.Yint16, yang.Yint32, yang.Yuint8, yang.Yuint16, yang.Yuint32}

func c18Leaf(k yang.TypeKind) *yang.Entry {
	return &yang.Entry{Name: "leaf", Kind: yang.LeafEntry, Type: &yang.YangType{Kind: k}}
}

func c18Range(k yang.TypeKind) (float64, float64) {
	switch k {
	case yang.Yint8:
		return -128, 127
	case yang.Yint16:
		return -32768, 32767
	case yang.Yint32:
		return -2147483648, 2147483647
	case yang.Yuint8:
		return 0, 255
	case yang.Yuint16:
		return 0, 65535
	}
	return 0, 4294967295
}

func c18AsFloat(v interface{}) (float64, bool) {
	switch x := v.(type) {
	case int8:
		return float64(x), true
	case int16:
		return float64(x), true
	case int32:
		return float64(x), true
	case uint8:
		return float64(x), true
	case uint16:
		return float64(x), true
	case uint32:
		return float64(x), true
	}
	return 0, false
}

// H_C18_json_number: a JSON number decoded into an 8/16/32-bit integer leaf is either
// stored exactly or rejected: non-integral and out-of-range numbers must be rejected,
// in-range integral numbers accepted. Every float64 (JSON cannot carry NaN/Inf).
//gosym:timeout_ms=120000
func H_C18_json_number() {
	k := c18SmallKinds[symChoose("kind", len(c18SmallKinds))]
	f := symFloat64("f")
	symAssume(!math.IsNaN(f) && !math.IsInf(f, 0))
	got, err := unmarshalScalar(nil, c18Leaf(k), "Leaf", f, JSONEncoding)
	lo, hi := c18Range(k)
	denotes := math.Trunc(f) == f && f >= lo && f <= hi
	if err == nil {
		symReach("accepted")
		g, ok := c18AsFloat(got)
		symAssert(ok, "accepted number stored with an unexpected Go type")
		symAssert(math.Trunc(f) == f, "non-integral JSON number stored in an integer leaf")
		symAssert(g == f, "stored value differs from the number the JSON denotes")
	} else {
		symReach("rejected")
		symAssert(!denotes, "in-range integral JSON number rejected")
	}
}

// H_C18_json_kind: JSON values of the wrong kind are rejected for every leaf type
// (number for a string leaf, string for a number leaf, bool, array, object, ...), and
// empty leaves only accept [null].
func H_C18_json_kind() {
	kinds := []yang.TypeKind{yang.Yint8, yang.Yuint32, yang.Yint64, yang.Yuint64, yang.Ystring, yang.Ybool, yang.Ydecimal64, yang.Ybinary, yang.Yempty}
	k := kinds[symChoose("kind", len(kinds))]
	var v interface{}
	vk := symChoose("vkind", 7)
	switch vk {
	case 0:
		v = symFloat64("f")
	case 1:
		v = symString("s", 2)
	case 2:
		v = symBool("b")
	case 3:
		v = []interface{}{}
	case 4:
		v = []interface{}{nil}
	case 5:
		v = []interface{}{nil, nil}
	case 6:
		v = map[string]interface{}{}
	}
	_, err := unmarshalScalar(nil, c18Leaf(k), "Leaf", v, JSONEncoding)
	symReach("decoded")
	var wantKind int
	switch k {
	case yang.Yint8, yang.Yuint32:
		wantKind = 0
	case yang.Ybool:
		wantKind = 2
	case yang.Yempty:
		wantKind = 4
	default:
		wantKind = 1
	}
	right := vk == wantKind
	if k == yang.Yempty && (vk == 3 || vk == 5) {
		right = false
	}
	if !right {
		symAssert(err != nil, "JSON value of the wrong kind accepted")
	}
	if k == yang.Yempty && vk == 4 {
		symAssert(err == nil, "[null] rejected for an empty leaf")
	}
	if k == yang.Ybool && vk == 2 {
		symAssert(err == nil, "boolean rejected for a boolean leaf")
	}
}

// H_C18_json_numstr: int64/uint64 leaves take decimal strings; malformed strings are
// rejected and accepted ones are stored exactly (strings of 0..3 arbitrary bytes).
//
//gosym:maxpaths=200000
func H_C18_json_numstr() {
	signed := symBool("signed")
	s := symString("s", 3)
	k := yang.Yuint64
	if signed {
		k = yang.Yint64
	}
	got, err := unmarshalScalar(nil, c18Leaf(k), "Leaf", s, JSONEncoding)
	// reference: optional '-' (signed only; Go also accepts '+') followed by 1+ digits
	digits := s
	neg := false
	if len(digits) > 0 && (digits[0] == '-' || digits[0] == '+') && signed {
		neg = digits[0] == '-'
		digits = digits[1:]
	}
	wf := len(digits) > 0
	var val int64
	for i := 0; i < len(digits); i++ {
		if digits[i] < '0' || digits[i] > '9' {
			wf = false
			break
		}
		val = val*10 + int64(digits[i]-'0')
	}
	if neg {
		val = -val
	}
	symReach("decoded")
	symAssert((err == nil) == wf, "acceptance differs from: optional sign (signed leaves only) followed by decimal digits")
	if err == nil {
		if signed {
			symAssert(got.(int64) == val, "stored int64 differs from the denoted value")
		} else {
			symAssert(got.(uint64) == uint64(val), "stored uint64 differs from the denoted value")
		}
	}
}

var c18IntKinds = []yang.TypeKind{yang.Yint8, yang.Yint16, yang.Yint32, yang.Yint64, yang.Yuint8, yang.Yuint16, yang.Yuint32, yang.Yuint64}

func c18Bits(k yang.TypeKind) (bits uint, signed bool) {
	switch k {
	case yang.Yint8:
		return 8, true
	case yang.Yint16:
		return 16, true
	case yang.Yint32:
		return 32, true
	case yang.Yint64:
		return 64, true
	case yang.Yuint8:
		return 8, false
	case yang.Yuint16:
		return 16, false
	case yang.Yuint32:
		return 32, false
	}
	return 64, false
}

// H_C18_gnmi_int: a TypedValue int_val / uint_val written to an integer leaf is stored
// exactly or rejected (out of range, wrong signedness); with the JSON-tolerance option
// a non-negative int_val is also accepted for unsigned leaves. Every int64 / uint64.
func H_C18_gnmi_int() {
	k := c18IntKinds[symChoose("kind", len(c18IntKinds))]
	tol := symBool("tolerance")
	isInt := symBool("int_val")
	var tv *gpb.TypedValue
	var iv int64
	var uv uint64
	if isInt {
		iv = symInt64("i")
		tv = &gpb.TypedValue{Value: &gpb.TypedValue_IntVal{IntVal: iv}}
	} else {
		uv = symUint64("u")
		tv = &gpb.TypedValue{Value: &gpb.TypedValue_UintVal{UintVal: uv}}
	}
	enc := GNMIEncoding
	if tol {
		enc = gNMIEncodingWithJSONTolerance
	}
	got, err := unmarshalScalar(nil, c18Leaf(k), "Leaf", tv, enc)
	bits, signed := c18Bits(k)
	var fits bool
	switch {
	case signed && isInt:
		fits = bits == 64 || (iv >= -(int64(1)<<(bits-1)) && iv <= (int64(1)<<(bits-1))-1)
	case !signed && !isInt:
		fits = bits == 64 || uv <= (uint64(1)<<bits)-1
	case !signed && isInt && tol:
		fits = iv >= 0 && (bits == 64 || uint64(iv) <= (uint64(1)<<bits)-1)
	default:
		fits = false
	}
	symReach("decoded")
	symAssert((err == nil) == fits, "acceptance differs from: value of the leaf's signedness that fits its width")
	if err == nil {
		var g int64
		var gu uint64
		switch x := got.(type) {
		case int8:
			g = int64(x)
		case int16:
			g = int64(x)
		case int32:
			g = int64(x)
		case int64:
			g = x
		case uint8:
			gu = uint64(x)
		case uint16:
			gu = uint64(x)
		case uint32:
			gu = uint64(x)
		case uint64:
			gu = x
		default:
			symAssert(false, "stored with an unexpected Go type")
		}
		if signed {
			symAssert(g == iv, "stored value differs from int_val")
		} else if isInt {
			symAssert(gu == uint64(iv), "stored value differs from int_val")
		} else {
			symAssert(gu == uv, "stored value differs from uint_val")
		}
	}
}

// H_C18_gnmi_kind: a TypedValue of the wrong oneof kind is rejected for every leaf type.
func H_C18_gnmi_kind() {
	kinds := []yang.TypeKind{yang.Yint32, yang.Yuint32, yang.Ystring, yang.Ybool, yang.Ybinary, yang.Ydecimal64}
	k := kinds[symChoose("kind", len(kinds))]
	var tv *gpb.TypedValue
	vk := symChoose("vkind", 7)
	switch vk {
	case 0:
		tv = &gpb.TypedValue{Value: &gpb.TypedValue_IntVal{IntVal: int64(symInt8("i"))}}
	case 1:
		tv = &gpb.TypedValue{Value: &gpb.TypedValue_UintVal{UintVal: uint64(symUint8("u"))}}
	case 2:
		tv = &gpb.TypedValue{Value: &gpb.TypedValue_StringVal{StringVal: symString("s", 1)}}
	case 3:
		tv = &gpb.TypedValue{Value: &gpb.TypedValue_BoolVal{BoolVal: symBool("b")}}
	case 4:
		tv = &gpb.TypedValue{Value: &gpb.TypedValue_BytesVal{BytesVal: symBytes("y", 1)}}
	case 5:
		tv = &gpb.TypedValue{Value: &gpb.TypedValue_DoubleVal{DoubleVal: symFloat64("d")}}
	case 6:
		tv = &gpb.TypedValue{}
	}
	_, err := unmarshalScalar(nil, c18Leaf(k), "Leaf", tv, GNMIEncoding)
	want := map[yang.TypeKind]int{yang.Yint32: 0, yang.Yuint32: 1, yang.Ystring: 2, yang.Ybool: 3, yang.Ybinary: 4, yang.Ydecimal64: 5}[k]
	symReach("decoded")
	if vk != want {
		symAssert(err != nil, "TypedValue of the wrong kind accepted")
	} else if k != yang.Ybinary {
		symAssert(err == nil, "TypedValue of the right kind rejected")
	}
}

// H_C18_json_decimal: decimal64 leaves take strings in the RFC 7950 lexical form:
// optional sign, digits, optionally '.' and digits. Anything else must be rejected.
//
//gosym:maxpaths=200000
func H_C18_json_decimal() {
	s := symString("s", 3)
	_, err := unmarshalScalar(nil, c18Leaf(yang.Ydecimal64), "Leaf", s, JSONEncoding)
	// reference lexical form
	i := 0
	if i < len(s) && (s[i] == '+' || s[i] == '-') {
		i++
	}
	d1 := 0
	for i < len(s) && s[i] >= '0' && s[i] <= '9' {
		i++
		d1++
	}
	wf := d1 > 0
	if wf && i < len(s) && s[i] == '.' {
		i++
		d2 := 0
		for i < len(s) && s[i] >= '0' && s[i] <= '9' {
			i++
			d2++
		}
		wf = d2 > 0
	}
	wf = wf && i == len(s)
	symReach("decoded")
	symKnown("C18-decimal-lexical", !wf)
	symAssert((err == nil) == wf, "acceptance differs from the RFC 7950 decimal64 lexical form")
}
