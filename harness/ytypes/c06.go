//go:build verif

package ytypes

import (
	"fmt"
	"regexp"
	"unicode/utf8"

	"github.com/openconfig/goyang/pkg/yang"
)

// H_C06_int: ValidateIntRestrictions accepts exactly the values inside the union of
// the range parts (every int64 value, every valid range of 0..3 parts).
//gosym:solver=cvc5
func H_C06_int() {
	v := symInt64("v")
	k := symChoose("parts", 4)
	var yr yang.YangRange
	in := false
	for i := 0; i < k; i++ {
		lo := symInt64(fmt.Sprintf("lo%d", i))
		hi := symInt64(fmt.Sprintf("hi%d", i))
		symAssume(lo <= hi) // a valid YRange
		yr = append(yr, yang.YRange{Min: yang.FromInt(lo), Max: yang.FromInt(hi)})
		in = symOr(in, symAnd(lo <= v, v <= hi))
	}
	if k == 0 {
		in = true
	}
	err := ValidateIntRestrictions(&yang.YangType{Kind: yang.Yint64, Range: yr}, v)
	symReach("validated")
	symAssert((err == nil) == in, "ValidateIntRestrictions differs from range membership")
}

// H_C06_uint: the same for unsigned values.
//gosym:solver=cvc5
func H_C06_uint() {
	v := symUint64("v")
	k := symChoose("parts", 4)
	var yr yang.YangRange
	in := false
	for i := 0; i < k; i++ {
		lo := symUint64(fmt.Sprintf("lo%d", i))
		hi := symUint64(fmt.Sprintf("hi%d", i))
		symAssume(lo <= hi)
		yr = append(yr, yang.YRange{Min: yang.FromUint(lo), Max: yang.FromUint(hi)})
		in = symOr(in, symAnd(lo <= v, v <= hi))
	}
	if k == 0 {
		in = true
	}
	err := ValidateUintRestrictions(&yang.YangType{Kind: yang.Yuint64, Range: yr}, v)
	symReach("validated")
	symAssert((err == nil) == in, "ValidateUintRestrictions differs from range membership")
}

func c06LenRange(k int) (yang.YangRange, []uint64, []uint64) {
	var yr yang.YangRange
	var los, his []uint64
	for i := 0; i < k; i++ {
		lo := uint64(symUint8(fmt.Sprintf("lo%d", i)))
		hi := uint64(symUint8(fmt.Sprintf("hi%d", i)))
		symAssume(lo <= hi)
		yr = append(yr, yang.YRange{Min: yang.FromUint(lo), Max: yang.FromUint(hi)})
		los, his = append(los, lo), append(his, hi)
	}
	return yr, los, his
}

// H_C06_len: string length restrictions count characters, not bytes.
//
//gosym:maxpaths=200000
func H_C06_len() {
	max := 4
	if symTier() > 0 {
		max = 6
	}
	s := symString("s", max)
	symAssume(utf8.ValidString(s))
	// characters = bytes that are not UTF-8 continuation bytes
	var chars uint64
	for i := 0; i < len(s); i++ {
		if s[i]&0xC0 != 0x80 {
			chars++
		}
	}
	k := symChoose("parts", 3)
	yr, los, his := c06LenRange(k)
	in := k == 0
	for i := range los {
		in = symOr(in, symAnd(los[i] <= chars, chars <= his[i]))
	}
	err := ValidateStringRestrictions(&yang.YangType{Kind: yang.Ystring, Length: yr}, s)
	symReach("validated")
	symAssert((err == nil) == in, "string length restriction differs from character-count membership")
}

// H_C06_bin: binary length restrictions count bytes.
func H_C06_bin() {
	b := symBytes("b", 8)
	k := symChoose("parts", 3)
	yr, los, his := c06LenRange(k)
	n := uint64(len(b))
	in := k == 0
	for i := range los {
		in = symOr(in, symAnd(los[i] <= n, n <= his[i]))
	}
	err := ValidateBinaryRestrictions(&yang.YangType{Kind: yang.Ybinary, Length: yr}, b)
	symReach("validated")
	symAssert((err == nil) == in, "binary length restriction differs from byte-count membership")
}

// Patterns of the harness corpus and the Go regular expression that states their
// XSD whole-string meaning (the reference; written by hand, not derived by ygot code).
var c06Patterns = []struct{ yang, whole string }{
	{`a+`, `^(?:a+)$`},
	{`[a-c]+`, `^(?:[a-c]+)$`},
	{`a|b`, `^(?:a|b)$`},
	{`ab*`, `^(?:ab*)$`},
	{`[0-9]{1,2}`, `^(?:[0-9]{1,2})$`},
	{`a|bc|`, `^(?:a|bc|)$`},
	{`^[a-b]*$`, `^(?:[a-b]*)$`},
	{`x\$`, `^(?:x\$)$`},
	{`é|a`, `^(?:é|a)$`},
}

// H_C06_pattern: a string is accepted exactly when it is inside the length range and
// is fully matched by every pattern (XSD whole-string semantics); with posix-patterns
// present they replace the patterns.
//
//gosym:maxpaths=200000
func H_C06_pattern() {
	max := 3
	if symTier() > 0 {
		max = 4
	}
	s := symString("s", max)
	symAssume(utf8.ValidString(s))
	i := symChoose("p1", len(c06Patterns))
	two := symBool("two")
	yt := &yang.YangType{Kind: yang.Ystring, Pattern: []string{c06Patterns[i].yang}}
	want := c06Whole(c06Patterns[i].whole, s)
	if two {
		j := symChoose("p2", len(c06Patterns))
		yt.Pattern = append(yt.Pattern, c06Patterns[j].yang)
		want = symAnd(want, c06Whole(c06Patterns[j].whole, s))
	}
	if symBool("posix") {
		// posix-pattern statements are used as written and replace the patterns
		yt.POSIXPattern = []string{`^[a-b]+$`}
		want = c06Whole(`^[a-b]+$`, s)
		// known finding: regexp.CompilePOSIX treats ^ and $ as line anchors
		symKnown("C06-posix-newline", symContains(s, "\n"))
	}
	err := ValidateStringRestrictions(yt, s)
	symReach("validated")
	symAssert((err == nil) == want, "pattern restriction differs from whole-string matching")
}

func c06Whole(re string, s string) bool {
	return regexpMustMatch(re, s)
}

func regexpMustMatch(re, s string) bool {
	ok, err := regexp.MatchString(re, s)
	if err != nil {
		panic(err)
	}
	return ok
}
