//go:build verif

package ygot

import (
	"fmt"

	gnmipb "github.com/openconfig/gnmi/proto/gnmi"
)

func c20Max() int {
	if symTier() > 0 {
		return 5
	}
	return 4
}

// H_C20_stringtopath: StringToPath / StringToStructuredPath / StringToStringSlicePath
// return normally (value or error) on every byte string, valid UTF-8 or not.
// An escaping panic ends the path as a violation.
//
//gosym:maxpaths=400000
func H_C20_stringtopath() {
	s := symString("s", c20Max())
	p, err := StringToPath(s, StructuredPath, StringSlicePath)
	symReach("returned")
	symAssert((p == nil) == (err != nil), "StringToPath returns exactly one of path and error")
	if err == nil {
		// whatever was parsed can be rendered again without panicking
		_, _ = PathToString(p)
		_, _ = PathToSchemaPath(p)
	}
}

// H_C20_pathtostring: PathToString / PathToStrings / PathToSchemaPath return normally
// on every path message shape: nil path, empty elements, empty names, empty key
// names and values, legacy Element form with arbitrary strings.
//
//gosym:maxpaths=400000
func H_C20_pathtostring() {
	var p *gnmipb.Path
	switch symChoose("shape", 4) {
	case 0:
		p = nil
	case 1: // PathElem form
		p = &gnmipb.Path{}
		n := symChoose("n", 3)
		for i := 0; i < n; i++ {
			// (nil PathElems are out of scope: protobuf decoding never produces them)
			e := &gnmipb.PathElem{Name: symString(fmt.Sprintf("name%d", i), 1)}
			if symBool(fmt.Sprintf("key%d", i)) {
				e.Key = map[string]string{symString(fmt.Sprintf("kn%d", i), 1): symString(fmt.Sprintf("kv%d", i), 1)}
			}
			p.Elem = append(p.Elem, e)
		}
	case 2: // legacy Element form
		p = &gnmipb.Path{Element: []string{}}
		n := symChoose("n", 3)
		for i := 0; i < n; i++ {
			p.Element = append(p.Element, symString(fmt.Sprintf("el%d", i), 2))
		}
	case 3:
		p = &gnmipb.Path{}
	}
	_, _ = PathToString(p)
	_, _ = PathToStrings(p)
	_, _ = PathToSchemaPath(p)
	symReach("returned")
}
