//go:build verif

package ygot

import (
	"fmt"
	"unicode/utf8"

	gnmipb "github.com/openconfig/gnmi/proto/gnmi"
)

// c08IdentStart: [A-Za-z_]
func c08IdentStart(b byte) bool {
	return symOr(symOr(symAnd(b >= 'a', b <= 'z'), symAnd(b >= 'A', b <= 'Z')), b == '_')
}

// c08IdentChar: [A-Za-z0-9_.-]
func c08IdentChar(b byte) bool {
	return symOr(c08IdentStart(b), symOr(symAnd(b >= '0', b <= '9'), symOr(b == '-', b == '.')))
}

// c08Ident returns a symbolic YANG identifier of exactly n bytes.
func c08Ident(name string, n int) string {
	s := symStringN(name, n)
	symAssume(c08IdentStart(s[0]))
	for i := 1; i < n; i++ {
		symAssume(c08IdentChar(s[i]))
	}
	return s
}

// c08Path builds a path of 1..maxElems elements with symbolic identifier names, each
// with 0..maxKeys keys whose names are identifiers and whose values are arbitrary
// non-empty valid-UTF-8 strings of up to maxVal bytes.
//
// It also returns the known-finding region predicate over the key values:
// back: some value contains a backslash.
func c08Path(tag string, maxElems, maxKeys, maxVal int) (*gnmipb.Path, bool) {
	back := false
	p := &gnmipb.Path{}
	n := 1 + symChoose(tag+".elems", maxElems)
	for i := 0; i < n; i++ {
		e := &gnmipb.PathElem{Name: c08Ident(fmt.Sprintf("%s.e%d.name", tag, i), 1)}
		if i == 0 && symBool(tag+".prefixed") {
			e.Name = "m:" + e.Name // module-prefixed form
		}
		nk := symChoose(fmt.Sprintf("%s.e%d.keys", tag, i), maxKeys+1)
		for k := 0; k < nk; k++ {
			if e.Key == nil {
				e.Key = map[string]string{}
			}
			kn := fmt.Sprintf("k%d", k)
			if k == 0 {
				kn = c08Ident(fmt.Sprintf("%s.e%d.kname", tag, i), 1)
				symAssume(kn != "k")
			}
			v := symString(fmt.Sprintf("%s.e%d.val%d", tag, i, k), maxVal)
			symAssume(len(v) > 0)
			symAssume(utf8.ValidString(v))
			e.Key[kn] = v
			back = symOr(back, symContains(v, "\\"))
		}
		if len(e.Key) > 1 {
			symMapOrder(e.Key) // every iteration order of the key map
		}
		p.Elem = append(p.Elem, e)
	}
	return p, back
}

func c08ElemsEqual(a, b *gnmipb.Path) bool {
	if len(a.Elem) != len(b.Elem) {
		return false
	}
	for i := range a.Elem {
		x, y := a.Elem[i], b.Elem[i]
		if x.Name != y.Name || len(x.Key) != len(y.Key) {
			return false
		}
		for k, v := range x.Key {
			if w, ok := y.Key[k]; !ok || v != w {
				return false
			}
		}
	}
	return true
}

func c08Bounds() (int, int, int) {
	if symTier() > 0 {
		return 2, 2, 4
	}
	return 2, 1, 3
}

// H_C08_roundtrip: StringToStructuredPath(PathToString(p)) == p.
//
//gosym:maxpaths=300000
//gosym:replay_repeat=60
func H_C08_roundtrip() {
	me, mk, mv := c08Bounds()
	p, back := c08Path("p", me, mk, mv)
	symKnown("C08-backslash", back)
	s, err := PathToString(p)
	symAssert(err == nil, "PathToString fails on a valid path")
	q, err := StringToStructuredPath(s)
	symReach("parsed")
	symAssert(err == nil, "StringToStructuredPath rejects PathToString output")
	symAssert(c08ElemsEqual(p, q), "round trip changes the path")
}

// H_C08_twokeys: one element with up to two keys (every map iteration order),
// values of 1..2 bytes.
//
//gosym:maxpaths=300000
//gosym:replay_repeat=60
func H_C08_twokeys() {
	p, back := c08Path("p", 1, 2, 2)
	symKnown("C08-backslash", back)
	s, err := PathToString(p)
	symAssert(err == nil, "PathToString fails on a valid path")
	q, err := StringToStructuredPath(s)
	symReach("parsed")
	symAssert(err == nil, "StringToStructuredPath rejects PathToString output")
	symAssert(c08ElemsEqual(p, q), "round trip changes the path")
}

// H_C08_slice: the legacy string-slice form obeys the same law:
// PathToStrings(StringToStringSlicePath(PathToString(p))) == PathToStrings(p).
//
//gosym:maxpaths=300000
//gosym:replay_repeat=60
func H_C08_slice() {
	me, mk, mv := c08Bounds()
	p, back := c08Path("p", me, mk, mv)
	symKnown("C08-backslash", back)
	want, err := PathToStrings(p)
	symAssert(err == nil, "PathToStrings fails on a valid path")
	s, _ := PathToString(p)
	sp, err := StringToStringSlicePath(s)
	symReach("parsed")
	symAssert(err == nil, "StringToStringSlicePath rejects PathToString output")
	got, err := PathToStrings(sp)
	symAssert(err == nil, "PathToStrings fails on the string-slice path")
	symAssert(len(got) == len(want), "string-slice round trip changes the number of elements")
	for i := range got {
		symAssert(got[i] == want[i], "string-slice round trip changes an element")
	}
}
