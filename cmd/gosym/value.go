package main

// Value representation of the symbolic interpreter (derived in structure from
// golang.org/x/tools/go/ssa/interp, with symbolic scalars).
//
//   bool / intN / uintN / floatN  -> *Term
//   string                        -> string (all bytes concrete) or *SymStr
//   pointer                       -> *value  (native Go pointer into the boxed heap)
//   slice                         -> []value
//   map                           -> *Map
//   interface                     -> iface{t, v}
//   struct, array                 -> structure, array
//   func                          -> *ssa.Function, *closure, *ssa.Builtin, *nativeFunc
//   reflect.Value, reflect.Type   -> *rval, rtype
//   unsafe.Pointer                -> uptr

import (
	"fmt"
	"go/types"
	"strings"

	"golang.org/x/tools/go/ssa"
)

type value interface{}

type tuple []value
type array []value
type structure []value

type iface struct {
	t types.Type // dynamic type; nil for nil interface
	v value
}

type closure struct {
	Fn  *ssa.Function
	Env []value
}

type uptr struct{ p value } // unsafe.Pointer wrapper around a *value (or nil)

type bad struct{}

// SymStr is a string of concrete length whose bytes are terms.
type SymStr struct {
	b     []*Term
	taint string // non-empty: content is an approximation (e.g. formatted symbolic number); inspecting bytes is unsupported
	dec   *decInfo // set when the string is exactly the base-10 rendering of an integer term
	flt   *Term    // set when the string is fmt's %v/%g rendering of this float64 term (bytes unknown: taint is set too)
	fltF  bool     // with flt: the rendering is strconv.FormatFloat(x, 'f', -1, 64) (never an exponent)
}

func strBytes(v value) []*Term {
	switch s := v.(type) {
	case string:
		r := make([]*Term, len(s))
		for i := 0; i < len(s); i++ {
			r[i] = byteConst(s[i])
		}
		return r
	case *SymStr:
		if s.taint != "" {
			panic(unsupported{"inspection of approximated string (" + s.taint + ")"})
		}
		return s.b
	}
	panic(fmt.Sprintf("strBytes: not a string: %T", v))
}

func strLen(v value) int {
	switch s := v.(type) {
	case string:
		return len(s)
	case *SymStr:
		return len(s.b)
	}
	panic(fmt.Sprintf("strLen: not a string: %T", v))
}

var byteConsts [256]*Term

func init() {
	for i := range byteConsts {
		byteConsts[i] = BV(8, uint64(i))
	}
}

func byteConst(b byte) *Term { return byteConsts[b] }

// mkStr normalises a byte-term vector into a string value.
func mkStr(b []*Term) value {
	all := true
	for _, t := range b {
		if !t.IsConst() {
			all = false
			break
		}
	}
	if all {
		bs := make([]byte, len(b))
		for i, t := range b {
			bs[i] = byte(t.c)
		}
		return string(bs)
	}
	return &SymStr{b: b}
}

func isConcreteStr(v value) (string, bool) {
	s, ok := v.(string)
	return s, ok
}

// strEq returns the term for a == b.
func strEq(a, b value) *Term {
	if sa, ok := a.(string); ok {
		if sb, ok := b.(string); ok {
			return Bool(sa == sb)
		}
	}
	// two shortest-round-trip renderings of floats are equal exactly when the floats are
	// bit-identical
	if sa, ok := a.(*SymStr); ok && sa.flt != nil {
		if sb, ok := b.(*SymStr); ok && sb.flt != nil && sa.fltF == sb.fltF {
			return Eq(sa.flt, sb.flt)
		}
	}
	// two base-10 renderings are equal exactly when the integers are (same signedness)
	if sa, ok := a.(*SymStr); ok && sa.dec != nil && sa.taint == "" {
		if sb, ok := b.(*SymStr); ok && sb.dec != nil && sb.taint == "" && sa.dec.signed == sb.dec.signed {
			if sa.dec.signed {
				return Eq(SExt(sa.dec.x, 64), SExt(sb.dec.x, 64))
			}
			return Eq(ZExt(sa.dec.x, 64), ZExt(sb.dec.x, 64))
		}
	}
	if strLen(a) != strLen(b) {
		return termFalse
	}
	ba, bb := strBytes(a), strBytes(b)
	r := termTrue
	for i := range ba {
		r = And(r, Eq(ba[i], bb[i]))
		if r == termFalse {
			return r
		}
	}
	return r
}

// strLess returns the term for a < b (lexicographic by bytes).
func strLess(a, b value) *Term {
	if sa, ok := a.(string); ok {
		if sb, ok := b.(string); ok {
			return Bool(sa < sb)
		}
	}
	ba, bb := strBytes(a), strBytes(b)
	n := len(ba)
	if len(bb) < n {
		n = len(bb)
	}
	// build from the end
	var r *Term
	if len(ba) < len(bb) {
		r = termTrue
	} else {
		r = termFalse
	}
	for i := n - 1; i >= 0; i-- {
		r = Ite(Cmp(OULt, ba[i], bb[i]), termTrue, Ite(Eq(ba[i], bb[i]), r, termFalse))
	}
	return r
}

func strConcat(a, b value) value {
	if sa, ok := a.(string); ok {
		if sb, ok := b.(string); ok {
			return sa + sb
		}
	}
	if strLen(a) == 0 {
		return b
	}
	if strLen(b) == 0 {
		return a
	}
	ta, tb := "", ""
	if s, ok := a.(*SymStr); ok {
		ta = s.taint
	}
	if s, ok := b.(*SymStr); ok {
		tb = s.taint
	}
	if ta != "" || tb != "" {
		n := strLen(a) + strLen(b)
		return &SymStr{b: make([]*Term, n), taint: ta + tb}
	}
	ba, bb := strBytes(a), strBytes(b)
	r := make([]*Term, 0, len(ba)+len(bb))
	r = append(r, ba...)
	r = append(r, bb...)
	return mkStr(r)
}

// ---- type helpers

func basicSort(b *types.Basic) (Sort, bool) {
	switch b.Kind() {
	case types.Bool, types.UntypedBool:
		return sortBool, true
	case types.Int8, types.Uint8:
		return bvSort(8), true
	case types.Int16, types.Uint16:
		return bvSort(16), true
	case types.Int32, types.Uint32, types.UntypedRune:
		return bvSort(32), true
	case types.Int, types.Uint, types.Int64, types.Uint64, types.Uintptr, types.UntypedInt:
		return bvSort(64), true
	case types.Float32:
		return fpSort(32), true
	case types.Float64, types.UntypedFloat:
		return fpSort(64), true
	}
	return Sort{}, false
}

func isSigned(t types.Type) bool {
	b, ok := t.Underlying().(*types.Basic)
	return ok && b.Info()&types.IsUnsigned == 0 && b.Info()&types.IsInteger != 0
}

func isFloat(t types.Type) bool {
	b, ok := t.Underlying().(*types.Basic)
	return ok && b.Info()&types.IsFloat != 0
}

func isString(t types.Type) bool {
	b, ok := t.Underlying().(*types.Basic)
	return ok && b.Info()&types.IsString != 0
}

func isNamed(t types.Type, pkg, name string) bool {
	t = types.Unalias(t)
	n, ok := t.(*types.Named)
	if !ok {
		return false
	}
	o := n.Obj()
	return o.Name() == name && o.Pkg() != nil && o.Pkg().Path() == pkg
}

func deref(t types.Type) types.Type {
	if p, ok := t.Underlying().(*types.Pointer); ok {
		return p.Elem()
	}
	panic(fmt.Sprintf("deref: not a pointer: %v", t))
}

// zero returns the zero value of type t.
func zero(t types.Type) value {
	if isNamed(t, "reflect", "Value") {
		return &rval{}
	}
	switch t := t.Underlying().(type) {
	case *types.Basic:
		if t.Kind() == types.UntypedNil {
			panic("untyped nil has no zero value")
		}
		if t.Info()&types.IsString != 0 {
			return ""
		}
		if t.Kind() == types.UnsafePointer {
			return uptr{}
		}
		if s, ok := basicSort(t); ok {
			switch s.K {
			case SBool:
				return termFalse
			case SBV:
				return BV(s.W, 0)
			case SFP:
				return fpConst(s.W, 0)
			}
		}
		panic(unsupported{fmt.Sprintf("zero of basic type %v", t)})
	case *types.Pointer:
		return (*value)(nil)
	case *types.Array:
		a := make(array, t.Len())
		for i := range a {
			a[i] = zero(t.Elem())
		}
		return a
	case *types.Struct:
		s := make(structure, t.NumFields())
		for i := range s {
			s[i] = zero(t.Field(i).Type())
		}
		return s
	case *types.Tuple:
		if t.Len() == 1 {
			return zero(t.At(0).Type())
		}
		s := make(tuple, t.Len())
		for i := range s {
			s[i] = zero(t.At(i).Type())
		}
		return s
	case *types.Slice:
		return []value(nil)
	case *types.Map:
		return (*Map)(nil)
	case *types.Interface:
		return iface{}
	case *types.Signature:
		return (*ssa.Function)(nil)
	case *types.Chan:
		return (*chanVal)(nil)
	}
	panic(unsupported{fmt.Sprintf("zero of type %v", t)})
}

type chanVal struct{}

// load returns a copy of the value of type T stored at addr.
func load(T types.Type, addr *value) value {
	return copyVal(*addr)
}

// copyVal copies aggregates (struct/array) so that values are unaliased.
func copyVal(v value) value {
	switch v := v.(type) {
	case structure:
		a := make(structure, len(v))
		for i := range v {
			a[i] = copyVal(v[i])
		}
		return a
	case array:
		a := make(array, len(v))
		for i := range v {
			a[i] = copyVal(v[i])
		}
		return a
	}
	return v
}

// store stores v into *addr, preserving the identity of aggregate element cells
// (so that interior pointers stay valid).
func store(addr *value, v value) {
	switch v := v.(type) {
	case structure:
		if lhs, ok := (*addr).(structure); ok && len(lhs) == len(v) {
			for i := range lhs {
				store(&lhs[i], v[i])
			}
			return
		}
		*addr = copyVal(v)
	case array:
		if lhs, ok := (*addr).(array); ok && len(lhs) == len(v) {
			for i := range lhs {
				store(&lhs[i], v[i])
			}
			return
		}
		*addr = copyVal(v)
	default:
		*addr = v
	}
}

// ---- panics used for control flow

// targetPanic is a Go-level panic in the interpreted program.
type targetPanic struct {
	v   value // the panic value (iface)
	msg string
}

// unsupported aborts the path: the engine cannot model something.
type unsupported struct{ msg string }

// pathEnd aborts the path for a benign reason (infeasible assumption, fuel, stop after violation).
type pathEnd struct {
	status string
	msg    string
}

// ---- debugging

func toString(v value) string {
	var sb strings.Builder
	writeValue(&sb, v, 0)
	return sb.String()
}

func writeValue(sb *strings.Builder, v value, depth int) {
	if depth > 6 {
		sb.WriteString("...")
		return
	}
	switch v := v.(type) {
	case nil:
		sb.WriteString("<nil>")
	case *Term:
		if v.IsConst() {
			switch v.sort.K {
			case SBool:
				fmt.Fprintf(sb, "%v", v.c != 0)
			case SBV:
				fmt.Fprintf(sb, "%d", v.c)
			case SFP:
				fmt.Fprintf(sb, "%v", v.FVal())
			}
		} else {
			s := v.SMT()
			if len(s) > 60 {
				s = s[:60] + "…"
			}
			sb.WriteString("⟨" + s + "⟩")
		}
	case string:
		fmt.Fprintf(sb, "%q", v)
	case *SymStr:
		sb.WriteString("symstr[")
		for i, b := range v.b {
			if i > 0 {
				sb.WriteByte(' ')
			}
			if b == nil {
				sb.WriteByte('?')
			} else if b.IsConst() {
				fmt.Fprintf(sb, "%q", rune(b.c))
			} else {
				sb.WriteString("?")
			}
		}
		sb.WriteString("]")
	case *value:
		if v == nil {
			sb.WriteString("nil")
		} else {
			sb.WriteString("&")
			writeValue(sb, *v, depth+1)
		}
	case iface:
		if v.t == nil {
			sb.WriteString("nil-iface")
		} else {
			fmt.Fprintf(sb, "(%s)", v.t)
			writeValue(sb, v.v, depth+1)
		}
	case structure:
		sb.WriteString("{")
		for i, e := range v {
			if i > 0 {
				sb.WriteString(" ")
			}
			writeValue(sb, e, depth+1)
		}
		sb.WriteString("}")
	case array:
		sb.WriteString("[")
		for i, e := range v {
			if i > 0 {
				sb.WriteString(" ")
			}
			writeValue(sb, e, depth+1)
		}
		sb.WriteString("]")
	case []value:
		if v == nil {
			sb.WriteString("nil-slice")
			return
		}
		sb.WriteString("[]{")
		for i, e := range v {
			if i > 0 {
				sb.WriteString(" ")
			}
			writeValue(sb, e, depth+1)
		}
		sb.WriteString("}")
	case tuple:
		sb.WriteString("(")
		for i, e := range v {
			if i > 0 {
				sb.WriteString(", ")
			}
			writeValue(sb, e, depth+1)
		}
		sb.WriteString(")")
	case *Map:
		if v == nil {
			sb.WriteString("nil-map")
			return
		}
		sb.WriteString("map[")
		for i, e := range v.entries {
			if i > 0 {
				sb.WriteString(" ")
			}
			writeValue(sb, e.k, depth+1)
			sb.WriteString(":")
			writeValue(sb, e.v, depth+1)
		}
		sb.WriteString("]")
	case *ssa.Function:
		if v == nil {
			sb.WriteString("nil-func")
		} else {
			sb.WriteString(v.String())
		}
	case *closure:
		sb.WriteString("closure:" + v.Fn.String())
	default:
		fmt.Fprintf(sb, "<%T>", v)
	}
}
