package main

// Path state: one execution of a harness along a decision trace. Exploration
// re-executes the harness from the start for every path (stateless DFS): the
// recorded decisions are replayed without solver calls, new branch points cost
// one or two feasibility queries.

import (
	"fmt"
	"go/types"
	"sort"
	"strings"
	"sync"

	"golang.org/x/tools/go/ssa"
)

type Decision struct {
	Val    bool
	Forced bool // only this side was feasible (constraint implied, not asserted)
}

type InputRec struct {
	Name  string
	Kind  string  // bool int8.. uint64 float64 float32 string bytes choice
	Vars  []*Term // scalar: 1 var; string/bytes: byte vars
	Width int
}

type AssertResult struct {
	Harness string
	Label   string
	Kind    string // "assert" | "panic"
	Known   string // id of the known region this witness falls into ("" = new)
	Inputs  map[string]interface{}
	PathID  string
}

type Path struct {
	eng     *Engine
	solver  *Solver
	harness *ssa.Function
	trace   []Decision
	pos     int
	alts    [][]Decision
	pcCount int
	inputs  []InputRec
	names   map[string]int
	fuel    int
	steps   int

	globals  map[*ssa.Global]*value
	initDone map[*ssa.Package]bool

	known    []knownRegion
	reached  []string
	observed []string
	results  []AssertResult
	asserts  int // assertion queries issued
	passed   int // assertion queries unsat (discharged)
	concAsserts int // asserts that were concretely true
	status   string // ok | infeasible | fuel | unsupported | panic | violation
	msg      string
	unknowns int
	decisions int
	forkPoints int
	expectPanic bool

	concreteInputs map[string]interface{} // concrete mode (translator validation)
	lastModel Model
	sample     map[string]interface{}
	tier       int
	traceLines []string
	onceDone   map[*value]bool
	bypass     string
	prelude    bool
	revMaps    bool
	syncMaps   map[*value]*Map
	tries      map[*value]*[]value
	jsonBlobs  map[*value]value
	dom       map[string]*byteDom
	entangled  map[string]bool
	domDecided int
}

type knownRegion struct {
	id   string
	pred *Term
}

func (p *Path) assume(c *Term) {
	p.solver.Assert(c)
	p.pcCount++
	p.noteConstraint(c)
}

// decide returns the direction taken for condition c, forking if both are feasible.
func (p *Path) decide(c *Term, what string) bool {
	if c.IsConst() {
		return c.c != 0
	}
	return p.decideX(c, true)
}

// decideX: if exploreFalse is false the false side is never scheduled (assumption).
func (p *Path) decideX(c *Term, exploreFalse bool) bool {
	p.decisions++
	if p.pos < len(p.trace) {
		d := p.trace[p.pos]
		p.pos++
		if !d.Forced {
			if d.Val {
				p.assume(c)
			} else {
				p.assume(Not(c))
			}
		}
		return d.Val
	}
	// 0 = not yet known
	const (
		unk = iota
		feas
		infeas
	)
	st, sf := unk, unk
	// 1. byte-domain reasoning (no solver)
	var dv *Term
	exact := false
	if v, nT, nF, ok := p.domSplit(c); ok {
		dv = v
		if nT == 0 {
			st = infeas
		}
		if nF == 0 {
			sf = infeas
		}
		if !p.entangled[v.name] {
			exact = true
			if nT > 0 {
				st = feas
			}
			if nF > 0 {
				sf = feas
			}
			p.domDecided++
		}
	}
	if st == infeas && sf == unk {
		sf = feas // the path condition is satisfiable, so one side is
	}
	if sf == infeas && st == unk {
		st = feas
	}
	// 2. model cache: the last model shows one feasible side for free
	var mT Model
	modelSays := 0
	if p.lastModel != nil && (st == unk || sf == unk || st == feas) {
		if v, ok := c.Ev(p.lastModel); ok {
			if v != 0 {
				modelSays = 1
				mT = p.lastModel
				if st == unk {
					st = feas
				}
			} else {
				modelSays = 2
				if sf == unk {
					sf = feas
				}
			}
		}
	}
	// 3. solver
	if st == unk {
		switch p.checkModel(c) {
		case Sat:
			st = feas
			mT = p.lastModel
		case Unsat:
			st = infeas
			if sf == unk {
				sf = feas
			}
		default:
			st = feas
			p.unknowns++
			p.lastModel = nil
		}
	}
	if !exploreFalse {
		sf = infeas
	}
	if sf == unk {
		switch p.checkModel(Not(c)) {
		case Sat:
			sf = feas
		case Unsat:
			sf = infeas
		default:
			sf = feas
			p.unknowns++
		}
	}
	if st == feas {
		// the true side is taken below: keep only a model that satisfies c
		if mT != nil {
			p.lastModel = mT
		} else if exact && dv != nil && p.lastModel != nil {
			p.fixModel(c, dv, true)
		} else if modelSays != 1 {
			p.lastModel = nil
		}
	} else if modelSays == 1 {
		p.lastModel = nil
	}
	var rt, rf SatResult = Sat, Sat
	if st == infeas {
		rt = Unsat
	}
	if sf == infeas {
		rf = Unsat
	}
	tFeas := rt != Unsat
	fFeas := rf != Unsat
	switch {
	case tFeas && fFeas:
		p.forkPoints++
		alt := make([]Decision, len(p.trace)+1)
		copy(alt, p.trace)
		alt[len(p.trace)] = Decision{Val: false}
		p.alts = append(p.alts, alt)
		p.trace = append(p.trace, Decision{Val: true})
		p.pos++
		p.assume(c)
		return true
	case tFeas:
		if exploreFalse {
			p.trace = append(p.trace, Decision{Val: true, Forced: true})
		} else {
			p.trace = append(p.trace, Decision{Val: true})
			p.assume(c)
		}
		p.pos++
		return true
	default:
		if !exploreFalse {
			// assumption infeasible
			p.trace = append(p.trace, Decision{Val: false, Forced: true})
			p.pos++
			return false
		}
		p.trace = append(p.trace, Decision{Val: false, Forced: true})
		p.pos++
		return false
	}
}

// checkModel checks pc ∧ c and caches the model when sat.
func (p *Path) checkModel(c *Term) SatResult {
	s := p.solver
	s.Push()
	s.Assert(c)
	r := s.Check()
	if r == Sat {
		if m, err := s.GetModel(p.allVars()); err == nil {
			p.lastModel = m
		}
	}
	s.Pop()
	return r
}

func (p *Path) allVars() []*Term {
	var vs []*Term
	for _, in := range p.inputs {
		vs = append(vs, in.Vars...)
	}
	return vs
}

func (p *Path) freshName(name string) string {
	name = strings.Map(func(r rune) rune {
		if r == '|' || r == '\\' || r < 32 {
			return '_'
		}
		return r
	}, name)
	n := p.names[name]
	p.names[name] = n + 1
	if n > 0 {
		name = fmt.Sprintf("%s#%d", name, n)
	}
	return name
}

func (p *Path) newVar(name string, kind string, s Sort) *Term {
	name = p.freshName(name)
	v := Var("|"+name+"|", s)
	p.inputs = append(p.inputs, InputRec{Name: name, Kind: kind, Vars: []*Term{v}, Width: s.W})
	if p.lastModel != nil {
		p.lastModel[v.name] = 0
		// a model extended with 0 for a fresh unconstrained variable is still a model
	}
	return v
}

// modelInputs converts a model into the replay-file input map.
func (p *Path) modelInputs(m Model) map[string]interface{} {
	out := map[string]interface{}{}
	for _, in := range p.inputs {
		switch in.Kind {
		case "string", "bytes":
			bs := make([]byte, len(in.Vars))
			for i, v := range in.Vars {
				bs[i] = byte(m[v.name])
			}
			out[in.Name] = fmt.Sprintf("%x", bs)
		case "bool":
			out[in.Name] = m[in.Vars[0].name] != 0
		case "float64", "float32":
			out[in.Name] = fmt.Sprintf("0x%x", m[in.Vars[0].name])
		default:
			v := m[in.Vars[0].name]
			if strings.HasPrefix(in.Kind, "int") || in.Kind == "choice" {
				out[in.Name] = fmt.Sprintf("%d", sext64(v, in.Width))
			} else {
				out[in.Name] = fmt.Sprintf("%d", v)
			}
		}
	}
	return out
}

// currentModel returns a model of the path condition (optionally with extra constraints).
func (p *Path) currentModel(extra ...*Term) (Model, SatResult) {
	s := p.solver
	s.Push()
	defer s.Pop()
	for _, t := range extra {
		s.Assert(t)
	}
	r := s.Check()
	if r != Sat {
		return nil, r
	}
	m, err := s.GetModel(p.allVars())
	if err != nil {
		return nil, Unknown
	}
	return m, Sat
}

// checkProperty handles symAssert and escaping panics (c = false).
func (p *Path) checkProperty(c *Term, label, kind string) {
	if c.IsConst() && c.c != 0 {
		p.concAsserts++
		return
	}
	p.asserts++
	notc := Not(c)
	m, r := p.currentModel(notc)
	if r == Unsat {
		p.passed++
		return
	}
	if r == Unknown {
		p.unknowns++
		p.eng.noteInconclusive(p.harness.Name(), "solver unknown on assertion "+label)
		return
	}
	// classify the witness
	region := ""
	for _, k := range p.known {
		if v, ok := k.pred.Ev(m); ok && v != 0 {
			region = k.id
			break
		}
	}
	p.results = append(p.results, AssertResult{Harness: p.harness.Name(), Label: label, Kind: kind, Known: region, Inputs: p.modelInputs(m)})
	if region != "" && len(p.known) > 0 {
		// is there also a violation outside every known region?
		extra := []*Term{notc}
		for _, k := range p.known {
			extra = append(extra, Not(k.pred))
		}
		m2, r2 := p.currentModel(extra...)
		if r2 == Sat {
			p.results = append(p.results, AssertResult{Harness: p.harness.Name(), Label: label, Kind: kind, Inputs: p.modelInputs(m2)})
		} else if r2 == Unknown {
			p.unknowns++
			p.eng.noteInconclusive(p.harness.Name(), "solver unknown on assertion outside known regions: "+label)
		}
	}
	if kind == "panic" {
		return
	}
	// continue only where the assertion holds
	if c.IsConst() {
		panic(pathEnd{status: "violation", msg: label})
	}
	if !p.decideX(c, false) {
		panic(pathEnd{status: "violation", msg: label})
	}
}

// ---- globals, lazy package initialisation

func (p *Path) globalAddr(g *ssa.Global) *value {
	if a, ok := p.globals[g]; ok {
		return a
	}
	if shareablePkg(g.Pkg) {
		if p.prelude {
			p.initPackage(g.Pkg) // p.globals is the shared table; the lock is held
			if a, ok := p.globals[g]; ok {
				return a
			}
		} else {
			a, err := p.eng.sharedGlobalInit(g)
			if err != "" {
				panic(unsupported{err})
			}
			return a
		}
	} else if p.prelude {
		panic(unsupported{"initialisation of a shared package touches package " + g.Pkg.Pkg.Path()})
	}
	p.initPackage(g.Pkg)
	if a, ok := p.globals[g]; ok {
		return a
	}
	panic(fmt.Sprintf("no storage for global %s", g))
}

func (p *Path) initPackage(pkg *ssa.Package) {
	if p.initDone[pkg] {
		return
	}
	p.initDone[pkg] = true
	for _, m := range pkg.Members {
		if g, ok := m.(*ssa.Global); ok {
			cell := zero(deref(g.Type()))
			p.globals[g] = &cell
		}
	}
	pkg.Build() // dependency packages are built lazily
	if init := pkg.Func("init"); init != nil && init.Blocks != nil {
		p.callSSA(nil, 0, init, nil, nil)
	}
}

// ---- engine (shared, immutable during exploration except for statistics)

type Engine struct {
	prog          *ssa.Program
	pkgs          map[string]*ssa.Package
	intrinsics    map[string]func(p *Path, fr *frame, args []value) value
	runtimeErrorT types.Type
	trace         bool

	mu           sync.Mutex
	funcsSeen    map[*ssa.Function]bool
	stubsSeen    map[string]bool
	inconclusive map[string][]string

	sharedRW   sync.RWMutex
	sharedErr  map[*ssa.Package]string
	shared     map[*ssa.Global]*value
	sharedPkgs map[*ssa.Package]bool

	skip map[string]bool

	rtypeType   types.Type
	sampleCount map[string]int
}

func (e *Engine) noteFunc(fn *ssa.Function) {
	e.mu.Lock()
	if !e.funcsSeen[fn] {
		e.funcsSeen[fn] = true
	}
	e.mu.Unlock()
}

// wantSample rations the end-of-path model queries used for evidence samples and
// translator validation.
func (e *Engine) wantSample(h string, n int) bool {
	e.mu.Lock()
	defer e.mu.Unlock()
	if e.sampleCount == nil {
		e.sampleCount = map[string]int{}
	}
	e.sampleCount[h]++
	c := e.sampleCount[h]
	// the first n paths, then every 97th path up to 4n attempts
	return c <= n || (c%97 == 0 && c/97 <= 3*n)
}

func (e *Engine) noteStub(name string) {
	e.mu.Lock()
	e.stubsSeen[name] = true
	e.mu.Unlock()
}

func (e *Engine) noteInconclusive(h, why string) {
	e.mu.Lock()
	for _, w := range e.inconclusive[h] {
		if w == why {
			e.mu.Unlock()
			return
		}
	}
	if len(e.inconclusive[h]) < 20 {
		e.inconclusive[h] = append(e.inconclusive[h], why)
	}
	e.mu.Unlock()
}

// shareablePkg: packages whose globals are initialised once (concretely) and then
// shared by all paths: the standard library, goyang and the protobuf message
// packages. Their package-level state is treated as immutable after init.
func shareablePkg(pkg *ssa.Package) bool {
	pp := pkg.Pkg.Path()
	first := pp
	if i := strings.IndexByte(pp, '/'); i >= 0 {
		first = pp[:i]
	}
	if !strings.Contains(first, ".") {
		return true // standard library
	}
	for _, pre := range []string{"github.com/openconfig/goyang/", "github.com/openconfig/gnmi/", "google.golang.org/", "github.com/golang/protobuf", "github.com/openconfig/ygot/proto/", "github.com/kylelemons/", "github.com/derekparker/",
		// generated packages: enum tables and the unzipped schema are immutable after init
		"github.com/openconfig/ygot/zz_verif_gen/", "github.com/openconfig/ygot/integration_tests/schemaops/"} {
		if strings.HasPrefix(pp, pre) {
			return true
		}
	}
	return false
}

func (e *Engine) sharedGlobalInit(g *ssa.Global) (a *value, errMsg string) {
	e.sharedRW.RLock()
	a, ok := e.shared[g]
	e.sharedRW.RUnlock()
	if ok {
		return a, ""
	}
	e.sharedRW.Lock()
	defer e.sharedRW.Unlock()
	if a, ok := e.shared[g]; ok {
		return a, ""
	}
	if msg, bad := e.sharedErr[g.Pkg]; bad {
		return nil, msg
	}
	pp := &Path{eng: e, prelude: true, concreteInputs: map[string]interface{}{}, fuel: 200000000,
		globals: e.shared, initDone: e.sharedPkgs, names: map[string]int{}, status: "ok",
		dom: map[string]*byteDom{}, entangled: map[string]bool{}}
	func() {
		defer func() {
			if r := recover(); r != nil {
				switch r := r.(type) {
				case unsupported:
					errMsg = "init of " + g.Pkg.Pkg.Path() + ": " + r.msg
				case pathEnd:
					errMsg = "init of " + g.Pkg.Pkg.Path() + ": " + r.status + " " + r.msg
				case targetPanic:
					errMsg = "init of " + g.Pkg.Pkg.Path() + " panicked: " + r.msg
				default:
					errMsg = fmt.Sprintf("init of %s: engine bug: %v", g.Pkg.Pkg.Path(), r)
				}
			}
		}()
		pp.initPackage(g.Pkg)
	}()
	if errMsg != "" {
		e.sharedErr[g.Pkg] = errMsg
		return nil, errMsg
	}
	return e.shared[g], ""
}

func (e *Engine) skipFunc(fn *ssa.Function) bool {
	if e.skip[fn.String()] {
		return true
	}
	if fn.Pkg != nil {
		pp := fn.Pkg.Pkg.Path()
		// user init functions of protobuf-generated / runtime-heavy packages
		if strings.HasPrefix(fn.Name(), "init#") {
			for _, pre := range initDenyPrefixes {
				if strings.HasPrefix(pp, pre) {
					return true
				}
			}
		}
	}
	return false
}

var initDenyPrefixes = []string{
	"google.golang.org/protobuf", "github.com/openconfig/gnmi/proto", "github.com/golang/protobuf",
	"github.com/openconfig/ygot/proto", "google.golang.org/grpc", "google.golang.org/genproto",
	"github.com/golang/glog", "github.com/openconfig/gribi",
}

func (e *Engine) funcsEncoded() []string {
	e.mu.Lock()
	defer e.mu.Unlock()
	var out []string
	for fn := range e.funcsSeen {
		pos := e.prog.Fset.Position(fn.Pos())
		name := fn.String()
		if pos.IsValid() {
			name += " @" + strings.TrimPrefix(pos.Filename, "/repo/") + fmt.Sprintf(":%d", pos.Line)
		}
		out = append(out, name)
	}
	sort.Strings(out)
	return out
}
