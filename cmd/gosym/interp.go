package main

// The SSA interpreter core: frames, instruction dispatch, calls, builtins.

import (
	"fmt"
	"go/token"
	"go/types"
	"os"
	"runtime"
	"strings"
	"unsafe"

	"golang.org/x/tools/go/ssa"
)

type continuation int

const (
	kNext continuation = iota
	kReturn
	kJump
)

type deferred struct {
	fn    value
	args  []value
	instr *ssa.Defer
	tail  *deferred
}

type frame struct {
	p                *Path
	caller           *frame
	fn               *ssa.Function
	block, prevBlock *ssa.BasicBlock
	env              map[ssa.Value]value
	locals           []value
	defers           *deferred
	result           value
	panicking        bool
	panic            interface{}
	phitemps         []value
	depth            int
}

func (fr *frame) get(key ssa.Value) value {
	switch key := key.(type) {
	case nil:
		return nil
	case *ssa.Function, *ssa.Builtin:
		return key
	case *ssa.Const:
		return constValue(key)
	case *ssa.Global:
		return fr.p.globalAddr(key)
	}
	if r, ok := fr.env[key]; ok {
		return r
	}
	panic(fmt.Sprintf("get: no value for %T: %v in %s", key, key.Name(), fr.fn))
}

func (fr *frame) runDefer(d *deferred) {
	var ok bool
	defer func() {
		if !ok {
			r := recover()
			if _, isT := r.(targetPanic); !isT {
				panic(r) // engine-level abort: propagate
			}
			fr.panicking = true
			fr.panic = r
		}
	}()
	fr.p.call(fr, d.instr.Pos(), d.fn, d.args)
	ok = true
}

func (fr *frame) runDefers() {
	for d := fr.defers; d != nil; d = d.tail {
		fr.runDefer(d)
	}
	fr.defers = nil
	if fr.panicking {
		panic(fr.panic)
	}
}

func (p *Path) posStr(pos token.Pos) string {
	if pos == token.NoPos {
		return "?"
	}
	ps := p.eng.prog.Fset.Position(pos)
	return fmt.Sprintf("%s:%d", ps.Filename, ps.Line)
}

func (fr *frame) visitInstr(instr ssa.Instruction) continuation {
	p := fr.p
	p.steps++
	if p.steps > p.fuel {
		panic(pathEnd{status: "fuel", msg: fmt.Sprintf("instruction budget %d exhausted in %s", p.fuel, fr.fn)})
	}
	switch instr := instr.(type) {
	case *ssa.DebugRef:
	case *ssa.UnOp:
		fr.env[instr] = fr.unop(instr)
	case *ssa.BinOp:
		fr.env[instr] = fr.binop(instr)
	case *ssa.Call:
		fn, args := fr.prepareCall(&instr.Call)
		fr.env[instr] = p.call(fr, instr.Pos(), fn, args)
	case *ssa.ChangeInterface:
		fr.env[instr] = fr.get(instr.X)
	case *ssa.ChangeType:
		fr.env[instr] = fr.get(instr.X)
	case *ssa.Convert:
		fr.env[instr] = fr.conv(instr.Type(), instr.X.Type(), fr.get(instr.X))
	case *ssa.MultiConvert:
		panic(unsupported{"MultiConvert (generic conversion)"})
	case *ssa.SliceToArrayPointer:
		x := fr.get(instr.X).([]value)
		arr := deref(instr.Type()).Underlying().(*types.Array)
		if arr.Len() > int64(len(x)) {
			panic(runtimePanic("cannot convert slice to array pointer: length too short"))
		}
		if x == nil {
			fr.env[instr] = (*value)(nil)
		} else {
			v := value(array(x[:arr.Len():arr.Len()]))
			fr.env[instr] = &v
		}
	case *ssa.MakeInterface:
		fr.env[instr] = iface{t: instr.X.Type(), v: fr.get(instr.X)}
	case *ssa.Extract:
		fr.env[instr] = fr.get(instr.Tuple).(tuple)[instr.Index]
	case *ssa.Slice:
		fr.env[instr] = fr.sliceOp(instr)
	case *ssa.Return:
		switch len(instr.Results) {
		case 0:
		case 1:
			fr.result = fr.get(instr.Results[0])
		default:
			var res []value
			for _, r := range instr.Results {
				res = append(res, fr.get(r))
			}
			fr.result = tuple(res)
		}
		fr.block = nil
		return kReturn
	case *ssa.RunDefers:
		fr.runDefers()
	case *ssa.Panic:
		v := fr.get(instr.X)
		panic(targetPanic{v: v, msg: p.panicText(v)})
	case *ssa.Send:
		panic(unsupported{"channel send"})
	case *ssa.Store:
		if sr, isSym := fr.get(instr.Addr).(*symRef); isSym {
			sr.store(fr.get(instr.Val))
			break
		}
		addr, ok := fr.get(instr.Addr).(*value)
		if !ok {
			panic(unsupported{fmt.Sprintf("store through %T", fr.get(instr.Addr))})
		}
		if addr == nil {
			panic(runtimePanic("invalid memory address or nil pointer dereference"))
		}
		store(addr, fr.get(instr.Val))
	case *ssa.If:
		succ := 1
		if p.decide(fr.get(instr.Cond).(*Term), "") {
			succ = 0
		}
		fr.prevBlock, fr.block = fr.block, fr.block.Succs[succ]
		return kJump
	case *ssa.Jump:
		fr.prevBlock, fr.block = fr.block, fr.block.Succs[0]
		return kJump
	case *ssa.Defer:
		fn, args := fr.prepareCall(&instr.Call)
		defers := &fr.defers
		if instr.DeferStack != nil {
			if into := fr.get(instr.DeferStack); into != nil {
				defers = into.(**deferred)
			}
		}
		*defers = &deferred{fn: fn, args: args, instr: instr, tail: *defers}
	case *ssa.Go:
		panic(unsupported{"go statement"})
	case *ssa.MakeChan:
		fr.env[instr] = &chanVal{}
	case *ssa.Alloc:
		var addr *value
		if instr.Heap {
			addr = new(value)
			fr.env[instr] = addr
		} else {
			addr = fr.env[instr].(*value)
		}
		*addr = zero(deref(instr.Type()))
	case *ssa.MakeSlice:
		c := mustInt(fr.get(instr.Cap), "make cap")
		l := mustInt(fr.get(instr.Len), "make len")
		if l < 0 || c < l || c > 1<<24 {
			panic(runtimePanic("makeslice: len out of range"))
		}
		slice := make([]value, c)
		tElt := instr.Type().Underlying().(*types.Slice).Elem()
		for i := range slice {
			slice[i] = zero(tElt)
		}
		fr.env[instr] = slice[:l]
	case *ssa.MakeMap:
		fr.env[instr] = newMap(instr.Type().Underlying().(*types.Map).Key())
	case *ssa.Range:
		x := fr.get(instr.X)
		switch x := x.(type) {
		case *Map:
			fr.env[instr] = x.iterOrd(p.revMaps)
		case string, *SymStr:
			fr.env[instr] = &stringIter{s: x}
		default:
			panic(unsupported{fmt.Sprintf("range over %T", x)})
		}
	case *ssa.Next:
		fr.env[instr] = fr.get(instr.Iter).(iter).next(p)
	case *ssa.FieldAddr:
		x, ok := fr.get(instr.X).(*value)
		if !ok {
			panic(unsupported{fmt.Sprintf("FieldAddr on %T", fr.get(instr.X))})
		}
		if x == nil {
			panic(runtimePanic("invalid memory address or nil pointer dereference"))
		}
		st, ok := (*x).(structure)
		if !ok {
			panic(unsupported{fmt.Sprintf("FieldAddr: pointee is %T (%s) at %s", *x, instr.X.Type(), p.posStr(instr.Pos()))})
		}
		fr.env[instr] = &st[instr.Field]
	case *ssa.Field:
		fr.env[instr] = copyVal(fr.get(instr.X).(structure)[instr.Field])
	case *ssa.IndexAddr:
		x := fr.get(instr.X)
		idx := fr.get(instr.Index).(*Term)
		sg := isSigned(instr.Index.Type())
		switch x := x.(type) {
		case []value:
			if r := p.symElemRef(idx, x, deref(instr.Type())); r != nil {
				fr.env[instr] = r
				break
			}
			i := p.indexCheck(idx, sg, len(x), "slice index")
			fr.env[instr] = &x[i]
		case *value:
			if x == nil {
				panic(runtimePanic("invalid memory address or nil pointer dereference"))
			}
			a := (*x).(array)
			if r := p.symElemRef(idx, []value(a), deref(instr.Type())); r != nil {
				fr.env[instr] = r
				break
			}
			i := p.indexCheck(idx, sg, len(a), "array index")
			fr.env[instr] = &a[i]
		default:
			panic(unsupported{fmt.Sprintf("IndexAddr on %T", x)})
		}
	case *ssa.Index:
		x := fr.get(instr.X)
		idx := fr.get(instr.Index).(*Term)
		sg := isSigned(instr.Index.Type())
		switch x := x.(type) {
		case array:
			i := p.indexCheck(idx, sg, len(x), "array index")
			fr.env[instr] = copyVal(x[i])
		case string:
			if idx.IsConst() {
				i := p.indexCheck(idx, sg, len(x), "string index")
				fr.env[instr] = byteConst(x[i])
			} else {
				fr.env[instr] = p.symStringIndex(strBytes(x), idx)
			}
		case *SymStr:
			if idx.IsConst() {
				i := p.indexCheck(idx, sg, len(x.b), "string index")
				fr.env[instr] = strBytes(x)[i]
			} else {
				fr.env[instr] = p.symStringIndex(strBytes(x), idx)
			}
		default:
			panic(unsupported{fmt.Sprintf("Index on %T", x)})
		}
	case *ssa.Lookup:
		x := fr.get(instr.X)
		switch x := x.(type) {
		case *Map:
			v, ok := x.lookup(p, fr.get(instr.Index))
			if !ok {
				v = zero(instr.X.Type().Underlying().(*types.Map).Elem())
			} else {
				v = copyVal(v)
			}
			if instr.CommaOk {
				fr.env[instr] = tuple{v, Bool(ok)}
			} else {
				fr.env[instr] = v
			}
		case string, *SymStr:
			idx := fr.get(instr.Index).(*Term)
			bs := strBytes(x)
			if idx.IsConst() {
				i := p.indexCheck(idx, isSigned(instr.Index.Type()), len(bs), "string index")
				fr.env[instr] = bs[i]
			} else {
				fr.env[instr] = p.symStringIndex(bs, idx)
			}
		default:
			panic(unsupported{fmt.Sprintf("Lookup on %T", x)})
		}
	case *ssa.MapUpdate:
		m := fr.get(instr.Map).(*Map)
		m.insert(p, copyVal(fr.get(instr.Key)), copyVal(fr.get(instr.Value)))
	case *ssa.TypeAssert:
		fr.env[instr] = fr.typeAssert(instr, fr.get(instr.X).(iface))
	case *ssa.MakeClosure:
		var bindings []value
		for _, b := range instr.Bindings {
			bindings = append(bindings, fr.get(b))
		}
		fr.env[instr] = &closure{instr.Fn.(*ssa.Function), bindings}
	case *ssa.Phi:
		panic("unreachable: phi")
	case *ssa.Select:
		panic(unsupported{"select"})
	default:
		panic(unsupported{fmt.Sprintf("instruction %T", instr)})
	}
	return kNext
}

// symStringIndex returns s[idx] for a symbolic idx as an ite chain (panics on out of range).
func (p *Path) symStringIndex(bs []*Term, idx *Term) value {
	inr := inRangeTerm(idx, len(bs))
	if !p.decide(inr, "string index in range") {
		panic(runtimePanic("index out of range (string)"))
	}
	r := bs[len(bs)-1]
	for i := len(bs) - 2; i >= 0; i-- {
		r = Ite(Eq(idx, BV(idx.sort.W, uint64(i))), bs[i], r)
	}
	return r
}

func (p *Path) panicText(v value) string {
	if it, ok := v.(iface); ok {
		switch x := it.v.(type) {
		case string:
			return x
		case *SymStr:
			return "<symbolic string>"
		}
		if it.t != nil {
			return fmt.Sprintf("panic value of type %s", it.t)
		}
		return "panic(nil)"
	}
	return fmt.Sprintf("%T", v)
}

func (fr *frame) prepareCall(call *ssa.CallCommon) (fn value, args []value) {
	v := fr.get(call.Value)
	if call.Method == nil {
		fn = v
	} else {
		recv := v.(iface)
		if recv.t == nil {
			panic(runtimePanic("invalid memory address or nil pointer dereference (method call on nil interface)"))
		}
		if f := fr.p.eng.lookupMethod(recv.t, call.Method); f != nil {
			fn = f
		} else {
			panic(unsupported{fmt.Sprintf("no method %s for dynamic type %v", call.Method.Name(), recv.t)})
		}
		args = append(args, recv.v)
	}
	for _, arg := range call.Args {
		args = append(args, fr.get(arg))
	}
	return
}

// nativeFunc is a method of an engine-modelled type (reflect etc).
type nativeFunc struct {
	name string
	fn   func(p *Path, fr *frame, args []value) value
}

func (e *Engine) lookupMethod(t types.Type, meth *types.Func) value {
	if nf := e.nativeMethod(t, meth); nf != nil {
		return nf
	}
	f := e.prog.LookupMethod(t, meth.Pkg(), meth.Name())
	if f == nil {
		return nil
	}
	return f
}

func (p *Path) call(caller *frame, pos token.Pos, fn value, args []value) value {
	switch fn := fn.(type) {
	case *ssa.Function:
		if fn == nil {
			panic(runtimePanic("invalid memory address or nil pointer dereference (call of nil func)"))
		}
		return p.callSSA(caller, pos, fn, args, nil)
	case *closure:
		if fn == nil {
			panic(runtimePanic("call of nil func"))
		}
		return p.callSSA(caller, pos, fn.Fn, args, fn.Env)
	case *ssa.Builtin:
		return p.callBuiltin(caller, pos, fn, args)
	case *nativeFunc:
		return fn.fn(p, caller, args)
	case *boundFn:
		return p.call(caller, pos, fn.fn, append([]value{fn.recv}, args...))
	}
	panic(fmt.Sprintf("cannot call %T", fn))
}

func (p *Path) callSSA(caller *frame, pos token.Pos, fn *ssa.Function, args []value, env []value) value {
	depth := 0
	if caller != nil {
		depth = caller.depth + 1
	}
	if depth > 400 {
		panic(pathEnd{status: "fuel", msg: "call depth > 400 in " + fn.String()})
	}
	fr := &frame{p: p, caller: caller, fn: fn, depth: depth}
	if fn.Parent() == nil {
		name := fn.String()
		if fn.Origin() != nil {
			name = fn.Origin().String()
		}
		if ext, ok := p.eng.intrinsics[name]; ok && p.bypass != name {
			p.eng.noteStub(name)
			return ext(p, fr, args)
		}
		if strings.HasPrefix(fn.Name(), "sym") && fn.Pkg != nil {
			if ext, ok := symAPI[fn.Name()]; ok {
				return ext(p, fr, args)
			}
		}
		if fn.Synthetic == "package initializer" && caller != nil && caller.fn.Synthetic == "package initializer" {
			return nil // lazy: the package is initialised on first use of its globals
		}
		if p.eng.skipFunc(fn) {
			p.eng.noteStub(name + " (skipped)")
			return zeroResults(fn.Signature)
		}
	}
	if fn.Pkg != nil {
		// lazily build dependency packages; called unconditionally so that a worker
		// never reads the blocks of a function another worker is still building
		// (Build is a sync.Once after the first call)
		fn.Pkg.Build()
	}
	if fn.Blocks == nil {
		panic(unsupported{"no SSA body for " + fn.String()})
	}
	if fn.TypeParams().Len() > 0 && len(fn.TypeArgs()) == 0 {
		panic(unsupported{"uninstantiated generic " + fn.String()})
	}
	p.eng.noteFunc(fn)
	fr.env = make(map[ssa.Value]value, 16)
	fr.block = fn.Blocks[0]
	fr.locals = make([]value, len(fn.Locals))
	for i, l := range fn.Locals {
		fr.locals[i] = zero(deref(l.Type()))
		fr.env[l] = &fr.locals[i]
	}
	for i, prm := range fn.Params {
		fr.env[prm] = args[i]
	}
	for i, fv := range fn.FreeVars {
		fr.env[fv] = env[i]
	}
	for fr.block != nil {
		fr.runFrame()
	}
	return fr.result
}

func zeroResults(sig *types.Signature) value {
	switch sig.Results().Len() {
	case 0:
		return nil
	case 1:
		return zero(sig.Results().At(0).Type())
	}
	return zero(sig.Results())
}

func (fr *frame) runFrame() {
	defer func() {
		if fr.block == nil {
			return // normal return
		}
		r := recover()
		switch r := r.(type) {
		case targetPanic:
			fr.panicking = true
			fr.panic = r
			fr.runDefers()
			fr.block = fr.fn.Recover
		case unsupported:
			if !strings.Contains(r.msg, " [in ") {
				var chain []string
				for f := fr; f != nil && len(chain) < 6; f = f.caller {
					chain = append(chain, f.fn.String())
				}
				r.msg += " [in " + strings.Join(chain, " <- ") + "]"
			}
			panic(r)
		case pathEnd:
			panic(r)
		case runtime.Error:
			buf := make([]byte, 4096)
			n := runtime.Stack(buf, false)
			panic(unsupported{fmt.Sprintf("engine bug: %v in %s\n%s", r, fr.fn, buf[:n])})
		default:
			if r == nil {
				panic(unsupported{"engine: nil panic"})
			}
			panic(unsupported{fmt.Sprintf("engine bug: %v in %s", r, fr.fn)})
		}
	}()
	for {
		nonPhis := fr.executePhis()
		for _, instr := range nonPhis {
			if fr.p.eng.trace {
				fmt.Fprintf(os.Stderr, "  %s: %v\n", fr.fn.Name(), instr)
			}
			if fr.visitInstr(instr) == kReturn {
				return
			}
		}
	}
}

func (fr *frame) executePhis() []ssa.Instruction {
	firstNonPhi := -1
	for i, instr := range fr.block.Instrs {
		if _, ok := instr.(*ssa.Phi); !ok {
			firstNonPhi = i
			break
		}
	}
	nonPhis := fr.block.Instrs[firstNonPhi:]
	if firstNonPhi > 0 {
		phis := fr.block.Instrs[:firstNonPhi]
		predIndex := -1
		for i, b := range fr.block.Preds {
			if b == fr.prevBlock {
				predIndex = i
				break
			}
		}
		fr.phitemps = fr.phitemps[:0]
		for _, phi := range phis {
			fr.phitemps = append(fr.phitemps, fr.get(phi.(*ssa.Phi).Edges[predIndex]))
		}
		for i, phi := range phis {
			fr.env[phi.(*ssa.Phi)] = fr.phitemps[i]
		}
	}
	return nonPhis
}

func (p *Path) doRecover(caller *frame) value {
	if caller != nil && !caller.panicking && caller.caller != nil && caller.caller.panicking {
		caller.caller.panicking = false
		pv := caller.caller.panic
		caller.caller.panic = nil
		tp := pv.(targetPanic)
		if tp.v != nil {
			return tp.v
		}
		// runtime error: wrap as runtime.Error value
		if p.eng.runtimeErrorT != nil {
			return iface{t: p.eng.runtimeErrorT, v: strings.TrimPrefix(tp.msg, "runtime error: ")}
		}
		return iface{t: types.Typ[types.String], v: tp.msg}
	}
	return iface{}
}

func (p *Path) callBuiltin(caller *frame, pos token.Pos, fn *ssa.Builtin, args []value) value {
	switch fn.Name() {
	case "append":
		if len(args) == 1 {
			return args[0]
		}
		switch s := args[1].(type) {
		case string, *SymStr:
			arg0 := args[0].([]value)
			for _, b := range strBytes(s) {
				arg0 = append(arg0, b)
			}
			return arg0
		}
		src := args[1].([]value)
		dst := args[0].([]value)
		for _, e := range src {
			dst = append(dst, copyVal(e))
		}
		if dst == nil && src != nil {
			dst = []value{}
		}
		return dst
	case "copy":
		dst := args[0].([]value)
		var src []value
		switch s := args[1].(type) {
		case string, *SymStr:
			for _, b := range strBytes(s) {
				src = append(src, b)
			}
		default:
			src = args[1].([]value)
		}
		n := len(dst)
		if len(src) < n {
			n = len(src)
		}
		tmp := make([]value, n)
		for i := 0; i < n; i++ {
			tmp[i] = copyVal(src[i])
		}
		copy(dst, tmp)
		return BV(64, uint64(n))
	case "close":
		return nil
	case "delete":
		args[0].(*Map).delete(p, args[1])
		return nil
	case "clear":
		switch x := args[0].(type) {
		case *Map:
			x.clear()
		case []value:
			t := fn.Type().(*types.Signature).Params().At(0).Type().Underlying().(*types.Slice).Elem()
			for i := range x {
				x[i] = zero(t)
			}
		}
		return nil
	case "print", "println":
		return nil
	case "len":
		switch x := args[0].(type) {
		case string:
			return BV(64, uint64(len(x)))
		case *SymStr:
			return BV(64, uint64(len(x.b)))
		case array:
			return BV(64, uint64(len(x)))
		case *value:
			if x == nil {
				t := deref(fn.Type().(*types.Signature).Params().At(0).Type()).Underlying().(*types.Array)
				return BV(64, uint64(t.Len()))
			}
			return BV(64, uint64(len((*x).(array))))
		case []value:
			return BV(64, uint64(len(x)))
		case *Map:
			return BV(64, uint64(x.Len()))
		case *chanVal:
			return BV(64, 0)
		}
		panic(unsupported{fmt.Sprintf("len of %T", args[0])})
	case "cap":
		switch x := args[0].(type) {
		case array:
			return BV(64, uint64(len(x)))
		case *value:
			return BV(64, uint64(len((*x).(array))))
		case []value:
			return BV(64, uint64(cap(x)))
		case *chanVal:
			return BV(64, 0)
		}
		panic(unsupported{fmt.Sprintf("cap of %T", args[0])})
	case "min", "max":
		sig := fn.Type().(*types.Signature)
		t := sig.Params().At(0).Type()
		r := args[0]
		for _, a := range args[1:] {
			var less *Term
			x, y := r, a
			if fn.Name() == "max" {
				x, y = a, r
			}
			// less: y < x → take y
			if isString(t) {
				less = strLess(y, x)
			} else if isFloat(t) {
				panic(unsupported{"float min/max"})
			} else if isSigned(t) {
				less = Cmp(OSLt, y.(*Term), x.(*Term))
			} else {
				less = Cmp(OULt, y.(*Term), x.(*Term))
			}
			if isString(t) {
				if p.decide(less, "min/max") {
					if fn.Name() == "max" {
						r = a
					} else {
						r = a
					}
				}
			} else {
				if fn.Name() == "max" {
					r = Ite(less, a.(*Term), r.(*Term))
				} else {
					r = Ite(less, a.(*Term), r.(*Term))
				}
			}
		}
		return r
	case "panic":
		panic(targetPanic{v: args[0], msg: p.panicText(args[0])})
	case "recover":
		return p.doRecover(caller)
	case "ssa:wrapnilchk":
		if args[0].(*value) == nil {
			panic(runtimePanic("value method called using nil pointer"))
		}
		return args[0]
	case "ssa:deferstack":
		return &caller.defers
	case "String": // unsafe.String(ptr, len)
		n := mustInt(args[1], "unsafe.String len")
		if n == 0 {
			return ""
		}
		ptr := args[0].(*value)
		sl := unsafe.Slice(ptr, int(n))
		b := make([]*Term, n)
		for i := range sl {
			b[i] = sl[i].(*Term)
		}
		return mkStr(b)
	case "SliceData":
		s := args[0].([]value)
		if cap(s) == 0 {
			return (*value)(nil)
		}
		return &s[:1][0]
	case "StringData":
		bs := strBytes(args[0])
		if len(bs) == 0 {
			return (*value)(nil)
		}
		arr := make([]value, len(bs))
		for i, b := range bs {
			arr[i] = b
		}
		return &arr[0]
	case "Slice": // unsafe.Slice(ptr, len)
		n := mustInt(args[1], "unsafe.Slice len")
		ptr := args[0].(*value)
		if ptr == nil {
			return []value(nil)
		}
		return unsafe.Slice(ptr, int(n))
	}
	panic(unsupported{"builtin " + fn.Name()})
}
