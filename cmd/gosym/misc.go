package main

import (
	"fmt"
	"go/types"
)

// deepClone structurally copies a value, following pointers, slices and maps
// (used for proto.Clone and snapshots). Sharing inside the source is preserved.
func deepClone(v value, memo map[interface{}]value) value {
	switch x := v.(type) {
	case *value:
		if x == nil {
			return x
		}
		if c, ok := memo[x]; ok {
			return c
		}
		n := new(value)
		memo[x] = n
		*n = deepClone(*x, memo)
		return n
	case []value:
		if x == nil {
			return x
		}
		out := make([]value, len(x), len(x))
		for i, e := range x {
			out[i] = deepClone(e, memo)
		}
		return out
	case structure:
		out := make(structure, len(x))
		for i, e := range x {
			out[i] = deepClone(e, memo)
		}
		return out
	case array:
		out := make(array, len(x))
		for i, e := range x {
			out[i] = deepClone(e, memo)
		}
		return out
	case *Map:
		if x == nil {
			return x
		}
		if c, ok := memo[x]; ok {
			return c
		}
		n := newMap(x.keyT)
		memo[x] = n
		for _, e := range x.entries {
			ne := &mapEntry{k: deepClone(e.k, memo), v: deepClone(e.v, memo), ck: e.ck, conc: e.conc}
			n.entries = append(n.entries, ne)
			if ne.conc {
				n.index[ne.ck] = ne
			} else {
				n.nsym++
			}
		}
		return n
	case iface:
		return iface{t: x.t, v: deepClone(x.v, memo)}
	}
	return v
}

// normalizeJSON models ygot's normalizeJSONValue (json.Marshal followed by
// json.Unmarshal into an interface{}): numbers become float64, strings, booleans and
// nil are unchanged, slices and string-keyed maps are normalised element-wise.
// Contract assumed: strings are valid UTF-8 (json.Marshal would replace invalid bytes).
func (p *Path) normalizeJSON(v value) value {
	it, ok := v.(iface)
	if !ok {
		panic(unsupported{fmt.Sprintf("normalizeJSONValue on %T", v)})
	}
	if it.t == nil {
		return it
	}
	f64 := types.Typ[types.Float64]
	anyT := types.NewInterfaceType(nil, nil)
	switch u := it.t.Underlying().(type) {
	case *types.Basic:
		switch {
		case u.Info()&types.IsString != 0:
			return iface{t: types.Typ[types.String], v: it.v}
		case u.Kind() == types.Bool:
			return iface{t: types.Typ[types.Bool], v: it.v}
		case u.Info()&types.IsInteger != 0:
			t := it.v.(*Term)
			if u.Info()&types.IsUnsigned != 0 {
				return iface{t: f64, v: UBVToF(t, 64)}
			}
			return iface{t: f64, v: SBVToF(t, 64)}
		case u.Info()&types.IsFloat != 0:
			return iface{t: f64, v: FToF(it.v.(*Term), 64)}
		}
	case *types.Slice:
		s, _ := it.v.([]value)
		if s == nil {
			return iface{} // JSON null
		}
		if eb, ok := u.Elem().Underlying().(*types.Basic); ok && eb.Kind() == types.Uint8 {
			panic(unsupported{"normalizeJSONValue of []byte (base64)"})
		}
		out := make([]value, len(s))
		for i, e := range s {
			ev := e
			if _, isI := e.(iface); !isI {
				ev = iface{t: u.Elem(), v: e}
			}
			out[i] = p.normalizeJSON(ev)
		}
		return iface{t: types.NewSlice(anyT), v: out}
	case *types.Map:
		mp, _ := it.v.(*Map)
		if mp == nil {
			return iface{}
		}
		if !isString(u.Key()) {
			panic(unsupported{"normalizeJSONValue of a map with non-string keys"})
		}
		out := newMap(types.Typ[types.String])
		for _, e := range mp.entries {
			ev := e.v
			if _, isI := ev.(iface); !isI {
				ev = iface{t: u.Elem(), v: ev}
			}
			out.insert(p, e.k, p.normalizeJSON(ev))
		}
		return iface{t: types.NewMap(types.Typ[types.String], anyT), v: out}
	case *types.Pointer:
		ptr, _ := it.v.(*value)
		if ptr == nil {
			return iface{}
		}
		return p.normalizeJSON(iface{t: u.Elem(), v: *ptr})
	}
	panic(unsupported{"normalizeJSONValue of " + it.t.String()})
}

func addMisc(e *Engine, m map[string]intrinsic) {
	m["github.com/openconfig/ygot/ygot.normalizeJSONValue"] = func(p *Path, fr *frame, args []value) value {
		return tupleOf(p.normalizeJSON(args[0]), iface{})
	}
	m["os.Getenv"] = func(p *Path, fr *frame, args []value) value { return "" }
	// sync.Map: an ordinary map from interface keys to interface values per receiver
	// (single goroutine)
	syncMap := func(p *Path, recv value) *Map {
		ptr := recv.(*value)
		if p.syncMaps == nil {
			p.syncMaps = map[*value]*Map{}
		}
		sm := p.syncMaps[ptr]
		if sm == nil {
			sm = newMap(types.NewInterfaceType(nil, nil))
			p.syncMaps[ptr] = sm
		}
		return sm
	}
	m["(*sync.Map).Load"] = func(p *Path, fr *frame, args []value) value {
		v, ok := syncMap(p, args[0]).lookup(p, args[1])
		if !ok {
			return tupleOf(iface{}, termFalse)
		}
		return tupleOf(v, termTrue)
	}
	m["(*sync.Map).Store"] = func(p *Path, fr *frame, args []value) value {
		syncMap(p, args[0]).insert(p, args[1], args[2])
		return nil
	}
	m["(*sync.Map).LoadOrStore"] = func(p *Path, fr *frame, args []value) value {
		sm := syncMap(p, args[0])
		if v, ok := sm.lookup(p, args[1]); ok {
			return tupleOf(v, termTrue)
		}
		sm.insert(p, args[1], args[2])
		return tupleOf(args[2], termFalse)
	}
	m["(*sync.Map).Delete"] = func(p *Path, fr *frame, args []value) value {
		syncMap(p, args[0]).delete(p, args[1])
		return nil
	}
	// github.com/derekparker/trie (third-party, used by gnmidiff for prefix matching):
	// summarised by its contract as a set of keys; PrefixSearch(pre) returns the keys
	// k with HasPrefix(k, pre), nil when there is none; Keys() all keys. The order of
	// the result (map iteration order in the real trie) is insertion order here.
	{
		trieOf := func(p *Path, st value) *[]value {
			root, _ := st.(structure)[1].(*value)
			if root == nil || p.tries[root] == nil {
				panic(unsupported{"trie model: unknown trie"})
			}
			return p.tries[root]
		}
		search := func(p *Path, keys []value, pre value) value {
			var out []value
			for _, k := range keys {
				if p.decide(hasPrefixTerm(strBytes(k), strBytes(pre)), "trie.PrefixSearch") {
					out = append(out, k)
				}
			}
			return out
		}
		m["github.com/derekparker/trie.New"] = func(p *Path, fr *frame, args []value) value {
			p.eng.noteStub("github.com/derekparker/trie (summarised as a set of keys with prefix search)")
			st := zero(e.pkgs["github.com/derekparker/trie"].Type("Trie").Type()).(structure)
			var rootCell value = structure{}
			st[1] = &rootCell
			if p.tries == nil {
				p.tries = map[*value]*[]value{}
			}
			p.tries[&rootCell] = &[]value{}
			var cell value = st
			return &cell
		}
		m["(*github.com/derekparker/trie.Trie).Add"] = func(p *Path, fr *frame, args []value) value {
			keys := trieOf(p, *args[0].(*value))
			for _, k := range *keys {
				if p.decide(strEq(k, args[1]), "trie.Add duplicate") {
					return (*value)(nil)
				}
			}
			*keys = append(*keys, args[1])
			return (*value)(nil)
		}
		m["(*github.com/derekparker/trie.Trie).Keys"] = func(p *Path, fr *frame, args []value) value {
			keys := trieOf(p, *args[0].(*value))
			if len(*keys) == 0 {
				return []value{}
			}
			return search(p, *keys, "")
		}
		m["(github.com/derekparker/trie.Trie).PrefixSearch"] = func(p *Path, fr *frame, args []value) value {
			return search(p, *trieOf(p, args[0]), args[1])
		}
	}
	// prototext.Format / Message.String(): a structural rendering of the message's
	// exported fields (injective on the content, not byte-identical to prototext;
	// callers use it for map keys and messages only)
	protoText := func(p *Path, fr *frame, args []value) value {
		return p.structText(args[0], 0)
	}
	m["google.golang.org/protobuf/encoding/prototext.Format"] = protoText
	m["(google.golang.org/protobuf/internal/impl.Export).MessageStringOf"] = func(p *Path, fr *frame, args []value) value {
		return p.structText(args[1], 0)
	}
	// util.UniqueErrors de-duplicates errors by their message text; messages built from
	// symbolic values are approximations, so the de-duplication is skipped (the set of
	// errors is returned as is: emptiness, which is what callers test, is preserved).
	m["github.com/openconfig/ygot/util.UniqueErrors"] = func(p *Path, fr *frame, args []value) value { return args[0] }
	for _, n := range []string{"github.com/openconfig/ygot/util.DbgPrint", "github.com/openconfig/ygot/util.DbgSchema", "github.com/openconfig/ygot/util.DbgErr",
		"github.com/golang/glog.Errorf", "github.com/golang/glog.Infof", "github.com/golang/glog.Warningf", "github.com/golang/glog.Error", "github.com/golang/glog.Info", "github.com/golang/glog.Warning",
		"github.com/golang/glog.Exitf", "github.com/golang/glog.Fatalf"} {
		m[n] = func(p *Path, fr *frame, args []value) value { return nil }
	}
	m["github.com/openconfig/ygot/util.DbgErr"] = func(p *Path, fr *frame, args []value) value { return args[0] }
	m["github.com/kr/pretty.Sprint"] = func(p *Path, fr *frame, args []value) value { return "" }
	m["github.com/kr/pretty.Sprintf"] = func(p *Path, fr *frame, args []value) value { return "" }
	m["github.com/kylelemons/godebug/pretty.Sprint"] = func(p *Path, fr *frame, args []value) value { return "" }
	m["github.com/kylelemons/godebug/pretty.Compare"] = func(p *Path, fr *frame, args []value) value { return "" }
	m["github.com/openconfig/ygot/util.ValueStrDebug"] = func(p *Path, fr *frame, args []value) value { return "" }
	m["github.com/openconfig/ygot/util.ValueStr"] = func(p *Path, fr *frame, args []value) value { return "" }
	m["github.com/openconfig/ygot/util.SchemaTypeStr"] = func(p *Path, fr *frame, args []value) value { return "" }
	m["github.com/openconfig/ygot/util.YangTypeToDebugString"] = func(p *Path, fr *frame, args []value) value { return "" }
	m["github.com/openconfig/ygot/util.DataSchemaTreesString"] = func(p *Path, fr *frame, args []value) value { return "" }
	// proto.Clone: structural deep copy of the message struct (stub; see DESIGN 2.6)
	clone := func(p *Path, fr *frame, args []value) value {
		it := args[0].(iface)
		if it.t == nil {
			return it
		}
		if ptr, ok := it.v.(*value); ok && ptr == nil {
			return it
		}
		return iface{t: it.t, v: deepClone(it.v, map[interface{}]value{})}
	}
	m["google.golang.org/protobuf/proto.Clone"] = clone
	m["github.com/golang/protobuf/proto.Clone"] = clone
	m["google.golang.org/protobuf/proto.Equal"] = func(p *Path, fr *frame, args []value) value {
		a, b := args[0].(iface), args[1].(iface)
		return p.deepEqualTerm(a, b)
	}
	m["github.com/golang/protobuf/proto.Equal"] = m["google.golang.org/protobuf/proto.Equal"]
}

// deepEqualTerm: structural equality following pointers (proto.Equal / reflect.DeepEqual model).
func (p *Path) deepEqualTerm(a, b value) *Term {
	switch x := a.(type) {
	case *value:
		y, ok := b.(*value)
		if !ok {
			return termFalse
		}
		if x == nil || y == nil {
			return Bool(x == nil && y == nil)
		}
		if x == y {
			return termTrue
		}
		return p.deepEqualTerm(*x, *y)
	case []value:
		y, ok := b.([]value)
		if !ok {
			return termFalse
		}
		if (x == nil) != (y == nil) || len(x) != len(y) {
			return termFalse
		}
		r := termTrue
		for i := range x {
			r = And(r, p.deepEqualTerm(x[i], y[i]))
		}
		return r
	case structure:
		y := b.(structure)
		r := termTrue
		for i := range x {
			r = And(r, p.deepEqualTerm(x[i], y[i]))
		}
		return r
	case array:
		y := b.(array)
		r := termTrue
		for i := range x {
			r = And(r, p.deepEqualTerm(x[i], y[i]))
		}
		return r
	case iface:
		y, ok := b.(iface)
		if !ok {
			return termFalse
		}
		if x.t == nil || y.t == nil {
			return Bool(x.t == nil && y.t == nil)
		}
		if !types.Identical(x.t, y.t) {
			return termFalse
		}
		return p.deepEqualTerm(x.v, y.v)
	case *Map:
		y, ok := b.(*Map)
		if !ok {
			return termFalse
		}
		if (x == nil) != (y == nil) || x.Len() != y.Len() {
			return termFalse
		}
		if x == y {
			return termTrue
		}
		r := termTrue
		for _, e := range x.entries {
			ov, found := y.lookup(p, e.k)
			if !found {
				return termFalse
			}
			r = And(r, p.deepEqualTerm(e.v, ov))
		}
		return r
	case *Term, string, *SymStr, rtype, uptr:
		return equalsTerm(a, b)
	case *rval:
		panic(unsupported{"DeepEqual on reflect.Value"})
	}
	if a == nil && b == nil {
		return termTrue
	}
	// funcs: equal only if both nil
	if isNilValue(a) && isNilValue(b) {
		return termTrue
	}
	panic(unsupported{fmt.Sprintf("deep equality on %T", a)})
}

// callSSABody interprets fn's body even when an intrinsic of the same name exists.
func (p *Path) callSSABody(caller *frame, fn *ssaFunction, args []value) value {
	name := fn.String()
	p.bypass = name
	defer func() { p.bypass = "" }()
	return p.callSSA(caller, 0, fn, args, nil)
}

// structText renders a value structurally (strings quoted with length prefix so that
// the rendering is injective), following pointers, skipping unexported struct fields.
func (p *Path) structText(v value, depth int) value {
	if depth > 12 {
		return "…"
	}
	switch x := v.(type) {
	case nil:
		return "nil"
	case iface:
		if x.t == nil {
			return "nil"
		}
		return p.structTextTyped(x.t, x.v, depth)
	}
	return p.structTextTyped(nil, v, depth)
}

func (p *Path) structTextTyped(t types.Type, v value, depth int) value {
	var out value = ""
	add := func(s value) { out = strConcat(out, s) }
	switch x := v.(type) {
	case *Term:
		if x.IsConst() {
			return fmt.Sprintf("%d", x.c)
		}
		if x.sort.K == SBV {
			return p.formatIntSym(x, false)
		}
		return &SymStr{b: make([]*Term, 4), taint: "structural text of a symbolic bool/float"}
	case string:
		return fmt.Sprintf("%d:%q", len(x), x)
	case *SymStr:
		add(fmt.Sprintf("%d:\"", len(x.b)))
		add(x)
		add("\"")
		return out
	case *value:
		if x == nil {
			return "nil"
		}
		var et types.Type
		if t != nil {
			if pt, ok := t.Underlying().(*types.Pointer); ok {
				et = pt.Elem()
			}
		}
		return p.structTextTyped(et, *x, depth+1)
	case structure:
		var st *types.Struct
		if t != nil {
			st, _ = t.Underlying().(*types.Struct)
		}
		add("{")
		for i, f := range x {
			if st != nil && !st.Field(i).Exported() {
				continue
			}
			var ft types.Type
			if st != nil {
				ft = st.Field(i).Type()
				add(st.Field(i).Name() + ":")
			}
			add(p.structTextTyped(ft, f, depth+1))
			add(" ")
		}
		add("}")
		return out
	case []value:
		var et types.Type
		if t != nil {
			if s, ok := t.Underlying().(*types.Slice); ok {
				et = s.Elem()
			}
		}
		add("[")
		for _, e := range x {
			add(p.structTextTyped(et, e, depth+1))
			add(" ")
		}
		add("]")
		return out
	case *Map:
		if x == nil {
			return "map[]"
		}
		// keys in sorted order of their own text when concrete; insertion order otherwise
		add("map[")
		ents := append([]*mapEntry{}, x.entries...)
		allConc := true
		for _, e := range ents {
			if !e.conc {
				allConc = false
			}
		}
		if allConc {
			for i := 1; i < len(ents); i++ {
				for j := i; j > 0 && ents[j].ck < ents[j-1].ck; j-- {
					ents[j], ents[j-1] = ents[j-1], ents[j]
				}
			}
		}
		for _, e := range ents {
			add(p.structTextTyped(nil, e.k, depth+1))
			add("=")
			add(p.structTextTyped(nil, e.v, depth+1))
			add(" ")
		}
		add("]")
		return out
	case iface:
		return p.structText(x, depth+1)
	}
	return fmt.Sprintf("<%T>", v)
}
