package main

import (
	"fmt"
	"go/types"
)

// symRef is the address &base[idx] for a symbolic idx over scalar elements: a load
// through it is an ite-chain over the elements and a store a conditional update of
// every element, so table lookups with symbolic indices do not fork.
type symRef struct {
	base []value
	idx  *Term
}

// symElemRef returns a symRef for base[idx] when idx is symbolic and the elements are
// scalars (after the Go bounds check), or nil to fall back to concretisation.
func (p *Path) symElemRef(idx *Term, base []value, elemT types.Type) *symRef {
	if idx.IsConst() || len(base) < 2 || len(base) > 1024 {
		return nil
	}
	b, ok := elemT.Underlying().(*types.Basic)
	if !ok {
		return nil
	}
	if _, ok := basicSort(b); !ok {
		return nil
	}
	for _, e := range base {
		if _, ok := e.(*Term); !ok {
			return nil
		}
	}
	inr := inRangeTerm(idx, len(base))
	if !p.decide(inr, "index in range") {
		panic(runtimePanic(fmt.Sprintf("index out of range [symbolic] with length %d", len(base))))
	}
	return &symRef{base: base, idx: idx}
}

func (r *symRef) load() value {
	res := r.base[len(r.base)-1].(*Term)
	for i := len(r.base) - 2; i >= 0; i-- {
		res = Ite(Eq(r.idx, BV(r.idx.sort.W, uint64(i))), r.base[i].(*Term), res)
	}
	return res
}

func (r *symRef) store(v value) {
	nv := v.(*Term)
	for i := range r.base {
		r.base[i] = Ite(Eq(r.idx, BV(r.idx.sort.W, uint64(i))), nv, r.base[i].(*Term))
	}
}

// inRangeTerm is the Go bounds check idx < n for an index term of any width
// (an index of a signed type that is negative is out of range as well, because the
// comparison is unsigned).
func inRangeTerm(idx *Term, n int) *Term {
	if idx.sort.W < 64 && uint64(n) > mask(idx.sort.W) {
		return termTrue
	}
	return Cmp(OULt, idx, BV(idx.sort.W, uint64(n)))
}

// collectLocs gathers the mutable heap locations reachable from v: pointer targets,
// slice element cells and map objects.
func collectLocs(v value, locs map[interface{}]bool, seen map[interface{}]bool) {
	switch x := v.(type) {
	case *value:
		if x == nil || seen[x] {
			return
		}
		seen[x] = true
		locs[x] = true
		collectLocs(*x, locs, seen)
	case []value:
		full := x[:cap(x)]
		for i := range full {
			locs[&full[i]] = true
		}
		for _, e := range x {
			collectLocs(e, locs, seen)
		}
	case *Map:
		if x == nil || seen[x] {
			return
		}
		seen[x] = true
		locs[x] = true
		for _, e := range x.entries {
			collectLocs(e.k, locs, seen)
			collectLocs(e.v, locs, seen)
		}
	case structure:
		for _, e := range x {
			collectLocs(e, locs, seen)
		}
	case array:
		for _, e := range x {
			collectLocs(e, locs, seen)
		}
	case iface:
		collectLocs(x.v, locs, seen)
	}
}
