package main

// Model of package fmt: exact for concrete operands and for %s/%v of strings
// with symbolic bytes; other symbolic operands make the result an
// *approximated* (tainted) string whose bytes may not be inspected.

import (
	"fmt"
	"go/types"
	"strconv"
	"strings"

	"golang.org/x/tools/go/ssa"
)

type ssaFunction = ssa.Function

type fmtOpaque struct{ s string }

func (o fmtOpaque) Format(f fmt.State, c rune) { fmt.Fprint(f, o.s) }

var errorIface = types.Universe.Lookup("error").Type().Underlying().(*types.Interface)

func (e *Engine) methodOf(t types.Type, name string) value {
	ms := e.prog.MethodSets.MethodSet(t)
	for i := 0; i < ms.Len(); i++ {
		sel := ms.At(i)
		if sel.Obj().Name() == name {
			if nf := e.nativeMethod(t, sel.Obj().(*types.Func)); nf != nil {
				return nf
			}
			return e.prog.MethodValue(sel)
		}
	}
	return nil
}

// goValue converts an interface value into a native Go value for formatting.
// exact=false means the rendering is only an approximation.
// If the result is a string value with symbolic bytes it is returned in sym.
func (p *Path) goValue(fr *frame, it iface, verb byte) (gv interface{}, sym value, exact bool) {
	if it.t == nil {
		return nil, nil, true
	}
	t := it.t
	// error / Stringer take precedence for %v %s %q
	if isProtoMessageType(t) {
		// String() of a protobuf message is prototext through protobuf-go's runtime
		return fmtOpaque{"<" + types.TypeString(t, pkgNameQualifier) + ">"}, nil, false
	}
	if verb == 'v' || verb == 's' || verb == 'q' {
		if _, isPtr := it.v.(*value); !isPtr || it.v.(*value) != nil {
			for _, mn := range []string{"Error", "String"} {
				if fn := p.eng.methodOf(t, mn); fn != nil {
					sig := methodSig(fn)
					if sig != nil && sig.Params().Len() == 0 && sig.Results().Len() == 1 && isString(sig.Results().At(0).Type()) {
						r := p.call(fr, 0, fn, []value{it.v})
						if s, ok := r.(string); ok {
							return s, nil, true
						}
						return nil, r, true
					}
				}
			}
		}
	}
	switch v := it.v.(type) {
	case *Term:
		if !v.IsConst() {
			// symbolic integers under %v / %d: exact decimal rendering
			if bb, ok := t.Underlying().(*types.Basic); ok && bb.Info()&types.IsInteger != 0 && (verb == 'v' || verb == 'd') {
				return nil, p.formatIntSym(v, bb.Info()&types.IsUnsigned == 0), true
			}
			if bb, ok := t.Underlying().(*types.Basic); ok && bb.Kind() == types.Bool && (verb == 'v' || verb == 't') {
				if p.decide(v, "fmt bool") {
					return true, nil, true
				}
				return false, nil, true
			}
			// symbolic float64 under %v / %g: an opaque string that remembers its value
			// (shortest round-trip rendering; contract in DESIGN 2.6)
			if bb, ok := t.Underlying().(*types.Basic); ok && bb.Kind() == types.Float64 && (verb == 'v' || verb == 'g') {
				return nil, &SymStr{b: make([]*Term, 8), taint: "%v of a symbolic float64", flt: v}, true
			}
			return fmtOpaque{"?"}, nil, false
		}
		b, _ := t.Underlying().(*types.Basic)
		if b == nil {
			return fmtOpaque{"?"}, nil, false
		}
		switch b.Kind() {
		case types.Bool:
			return v.c != 0, nil, true
		case types.Int:
			return int(v.SVal()), nil, true
		case types.Int8:
			return int8(v.SVal()), nil, true
		case types.Int16:
			return int16(v.SVal()), nil, true
		case types.Int32:
			return int32(v.SVal()), nil, true
		case types.Int64:
			return v.SVal(), nil, true
		case types.Uint:
			return uint(v.c), nil, true
		case types.Uint8:
			return uint8(v.c), nil, true
		case types.Uint16:
			return uint16(v.c), nil, true
		case types.Uint32:
			return uint32(v.c), nil, true
		case types.Uint64:
			return v.c, nil, true
		case types.Uintptr:
			return uintptr(v.c), nil, true
		case types.Float32:
			return float32(v.FVal()), nil, true
		case types.Float64:
			return v.FVal(), nil, true
		}
	case string:
		return v, nil, true
	case *SymStr:
		return nil, v, true
	case structure:
		// %v of a struct whose fields are method-less strings and integers: {f1 f2 ...}
		if st, ok := t.Underlying().(*types.Struct); ok && verb == 'v' && !hasFmtMethod(t) {
			var out value = "{"
			for i := range v {
				ft := st.Field(i).Type()
				bb, isBasic := ft.Underlying().(*types.Basic)
				if !isBasic || hasFmtMethod(ft) {
					return fmtOpaque{"{" + types.TypeString(t, pkgNameQualifier) + "}"}, nil, false
				}
				if i > 0 {
					out = strConcat(out, " ")
				}
				switch {
				case bb.Info()&types.IsString != 0:
					if ss, isSym := v[i].(*SymStr); isSym && ss.taint != "" {
						return fmtOpaque{"{?}"}, nil, false
					}
					out = strConcat(out, v[i])
				case bb.Info()&types.IsInteger != 0:
					tm := v[i].(*Term)
					signed := bb.Info()&types.IsUnsigned == 0
					if tm.IsConst() {
						if signed {
							out = strConcat(out, strconv.FormatInt(tm.SVal(), 10))
						} else {
							out = strConcat(out, strconv.FormatUint(tm.c, 10))
						}
					} else {
						out = strConcat(out, p.formatIntSym(tm, signed))
					}
				default:
					return fmtOpaque{"{" + types.TypeString(t, pkgNameQualifier) + "}"}, nil, false
				}
			}
			out = strConcat(out, "}")
			if s, isStr := out.(string); isStr {
				return s, nil, true
			}
			return nil, out, true
		}
	case []value:
		if st, ok := t.Underlying().(*types.Slice); ok {
			if eb, ok := st.Elem().Underlying().(*types.Basic); ok {
				if eb.Kind() == types.Byte {
					if bs, ok := concreteBytes(v); ok {
						if v == nil {
							return []byte(nil), nil, true
						}
						return bs, nil, true
					}
				}
				if eb.Info()&types.IsString != 0 {
					out := make([]string, len(v))
					for i, e := range v {
						s, ok := e.(string)
						if !ok {
							return fmtOpaque{"[?]"}, nil, false
						}
						out[i] = s
					}
					return out, nil, true
				}
			}
			// generic slice: render elements
			var parts []string
			ex := true
			for _, e := range v {
				g, s, ok := p.goValue(fr, iface{t: st.Elem(), v: e}, verb)
				if it2, isI := e.(iface); isI {
					g, s, ok = p.goValue(fr, it2, verb)
				}
				if s != nil || !ok {
					ex = false
					parts = append(parts, "?")
					continue
				}
				parts = append(parts, fmt.Sprintf("%"+string(verb), g))
			}
			return fmtOpaque{"[" + strings.Join(parts, " ") + "]"}, nil, ex && verb == 'v'
		}
	case *value:
		if v == nil {
			return fmtOpaque{"<nil>"}, nil, verb == 'v'
		}
		return fmtOpaque{"0xc000012345"}, nil, false
	case iface:
		return p.goValue(fr, v, verb)
	}
	return fmtOpaque{"{" + types.TypeString(t, pkgNameQualifier) + "}"}, nil, false
}

func pkgNameQualifier(p *types.Package) string { return p.Name() }

func methodSig(fn value) *types.Signature {
	if f, ok := fn.(*ssa.Function); ok {
		return f.Signature
	}
	return nil
}

type fmtResult struct {
	parts []value
	taint string
	wrapped value // %w operand
}

func (r *fmtResult) addStr(s string) { r.parts = append(r.parts, s) }

func (r *fmtResult) value() value {
	// a format that consists of one verb returns the operand's rendering unchanged
	// (keeps the decimal / float provenance tags)
	nonEmpty := 0
	var only value
	for _, pz := range r.parts {
		if strLen(pz) > 0 {
			nonEmpty++
			only = pz
		}
	}
	if nonEmpty == 1 {
		if ss, ok := only.(*SymStr); ok {
			return ss
		}
	}
	var out value = ""
	for _, pz := range r.parts {
		out = strConcat(out, pz)
	}
	if r.taint != "" {
		return &SymStr{b: make([]*Term, strLen(out)), taint: r.taint}
	}
	return out
}

// sprintf implements the formatting verbs.
func (p *Path) sprintf(fr *frame, format string, args []value) *fmtResult {
	res := &fmtResult{}
	argi := 0
	i := 0
	for i < len(format) {
		j := strings.IndexByte(format[i:], '%')
		if j < 0 {
			res.addStr(format[i:])
			break
		}
		res.addStr(format[i : i+j])
		i += j
		// parse spec
		k := i + 1
		for k < len(format) && strings.IndexByte("+-# 0123456789.*[]", format[k]) >= 0 {
			k++
		}
		if k >= len(format) {
			res.addStr("%!(NOVERB)")
			break
		}
		verb := format[k]
		spec := format[i : k+1]
		i = k + 1
		if verb == '%' {
			res.addStr("%")
			continue
		}
		if strings.ContainsAny(spec, "*[") {
			res.addStr("?")
			res.taint = "fmt: * or [] in format"
			continue
		}
		if argi >= len(args) {
			res.addStr("%!" + string(verb) + "(MISSING)")
			continue
		}
		arg := args[argi].(iface)
		argi++
		if verb == 'T' {
			if arg.t == nil {
				res.addStr("<nil>")
			} else {
				res.addStr(types.TypeString(arg.t, pkgNameQualifier))
			}
			continue
		}
		v := verb
		if v == 'w' {
			res.wrapped = arg
			v = 'v'
			spec = spec[:len(spec)-1] + "v"
		}
		gv, sym, exact := p.goValue(fr, arg, v)
		if sym != nil {
			if ss, ok := sym.(*SymStr); ok && ss.taint != "" {
				if ss.flt != nil && (spec == "%v" || spec == "%g" || spec == "%s") {
					res.parts = append(res.parts, ss) // kept as is when it is the whole result
				} else {
					res.parts = append(res.parts, strings.Repeat("?", len(ss.b)))
				}
				res.taint = ss.taint
				continue
			}
			if spec == "%s" || spec == "%v" || spec == "%d" {
				res.parts = append(res.parts, sym)
			} else if spec == "%q" {
				res.parts = append(res.parts, "\"", sym, "\"")
				res.taint = "fmt: %q of symbolic string"
			} else {
				res.parts = append(res.parts, sym)
				res.taint = "fmt: " + spec + " of symbolic string"
			}
			continue
		}
		if !exact {
			res.taint = "fmt: " + spec + " of symbolic or unmodelled operand"
		}
		res.addStr(fmt.Sprintf(spec, gv))
	}
	if argi < len(args) {
		res.addStr("%!(EXTRA)")
	}
	return res
}

func (p *Path) sprint(fr *frame, args []value, ln bool) value {
	res := &fmtResult{}
	prevString := false
	for i, a := range args {
		it := a.(iface)
		gv, sym, exact := p.goValue(fr, it, 'v')
		isStr := false
		if it.t != nil {
			isStr = isString(it.t)
		}
		if i > 0 && (ln || (!isStr && !prevString)) {
			res.addStr(" ")
		}
		prevString = isStr
		if sym != nil {
			if ss, ok := sym.(*SymStr); ok && ss.taint != "" {
				res.taint = ss.taint
				res.addStr("?")
			} else {
				res.parts = append(res.parts, sym)
			}
			continue
		}
		if !exact {
			res.taint = "fmt.Sprint of symbolic or unmodelled operand"
		}
		res.addStr(fmt.Sprint(gv))
	}
	if ln {
		res.addStr("\n")
	}
	return res.value()
}

// mkError builds an *errors.errorString value.
func (p *Path) mkError(msg value) value {
	e := p.eng
	pkg := e.pkgs["errors"]
	if pkg == nil {
		panic(unsupported{"package errors not loaded"})
	}
	named := pkg.Type("errorString").Type()
	cell := value(structure{msg})
	return iface{t: types.NewPointer(named), v: &cell}
}

func addFmt(e *Engine, m map[string]intrinsic) {
	m["fmt.Sprintf"] = func(p *Path, fr *frame, args []value) value {
		f, ok := args[0].(string)
		if !ok {
			panic(unsupported{"fmt.Sprintf with symbolic format"})
		}
		return p.sprintf(fr, f, args[1].([]value)).value()
	}
	m["fmt.Errorf"] = func(p *Path, fr *frame, args []value) value {
		f, ok := args[0].(string)
		if !ok {
			panic(unsupported{"fmt.Errorf with symbolic format"})
		}
		r := p.sprintf(fr, f, args[1].([]value))
		if r.wrapped != nil {
			pkg := e.pkgs["fmt"]
			named := pkg.Type("wrapError").Type()
			cell := value(structure{r.value(), r.wrapped})
			return iface{t: types.NewPointer(named), v: &cell}
		}
		return p.mkError(r.value())
	}
	m["fmt.Sprint"] = func(p *Path, fr *frame, args []value) value {
		return p.sprint(fr, args[0].([]value), false)
	}
	m["fmt.Sprintln"] = func(p *Path, fr *frame, args []value) value {
		return p.sprint(fr, args[0].([]value), true)
	}
	ioNoop := func(p *Path, fr *frame, args []value) value { return tupleOf(BV(64, 0), iface{}) }
	for _, n := range []string{"fmt.Printf", "fmt.Println", "fmt.Print", "fmt.Fprintf", "fmt.Fprintln", "fmt.Fprint"} {
		m[n] = ioNoop
	}
	m["fmt.Fprintf"] = func(p *Path, fr *frame, args []value) value {
		// writing into a *bytes.Buffer / strings.Builder is modelled through their Write methods
		w := args[0].(iface)
		f, ok := args[1].(string)
		if !ok {
			panic(unsupported{"fmt.Fprintf with symbolic format"})
		}
		s := p.sprintf(fr, f, args[2].([]value)).value()
		if w.t != nil {
			if fn := e.methodOf(w.t, "WriteString"); fn != nil {
				p.call(fr, 0, fn, []value{w.v, s})
				return tupleOf(termOfInt(strLen(s)), iface{})
			}
		}
		return tupleOf(termOfInt(strLen(s)), iface{})
	}
}
