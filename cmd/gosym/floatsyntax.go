package main

import (
	"go/types"
	"strings"
	"unicode"
)

// goFloatSyntax is the syntax strconv.ParseFloat accepts (decimal and hexadecimal
// floating-point literals, infinities and NaN), without digit-separating underscores.
const goFloatSyntax = `^(?:[+-]?(?:[iI][nN][fF](?:[iI][nN][iI][tT][yY])?)|[nN][aA][nN]|` +
	`[+-]?(?:[0-9]+\.?[0-9]*|\.[0-9]+)(?:[eE][+-]?[0-9]+)?|` +
	`[+-]?0[xX](?:[0-9a-fA-F]+\.?[0-9a-fA-F]*|\.[0-9a-fA-F]+)[pP][+-]?[0-9]+)$`

// foldOrbitTerm: r equals c under simple case folding (the whole unicode.SimpleFold orbit).
func foldOrbitTerm(c rune, r *Term) *Term {
	t := Eq(r, BV(32, uint64(uint32(c))))
	for f := unicode.SimpleFold(c); f != c; f = unicode.SimpleFold(f) {
		t = Or(t, Eq(r, BV(32, uint64(uint32(f)))))
	}
	return t
}

// isProtoMessageType: pointer to (or value of) a generated protobuf message type.
func isProtoMessageType(t types.Type) bool {
	if p, ok := t.Underlying().(*types.Pointer); ok {
		t = p.Elem()
	}
	n, ok := types.Unalias(t).(*types.Named)
	if !ok || n.Obj().Pkg() == nil {
		return false
	}
	pp := n.Obj().Pkg().Path()
	for _, pre := range []string{"github.com/openconfig/gnmi/proto/", "google.golang.org/protobuf/types/", "github.com/openconfig/ygot/proto/", "google.golang.org/genproto/"} {
		if strings.HasPrefix(pp, pre) {
			_, isStruct := n.Underlying().(*types.Struct)
			return isStruct
		}
	}
	return false
}
