package main

// SMT terms: bit-vectors, booleans, IEEE floats. Constant folding and light
// algebraic simplification happen at construction so concrete execution never
// reaches the solver.

import (
	"fmt"
	"math"
	"math/bits"
	"strings"
)

type SortKind uint8

const (
	SBool SortKind = iota
	SBV
	SFP // IEEE float, W = 32 or 64
)

type Sort struct {
	K SortKind
	W int
}

func (s Sort) String() string {
	switch s.K {
	case SBool:
		return "Bool"
	case SBV:
		return fmt.Sprintf("(_ BitVec %d)", s.W)
	case SFP:
		if s.W == 32 {
			return "(_ FloatingPoint 8 24)"
		}
		return "(_ FloatingPoint 11 53)"
	}
	return "?"
}

var sortBool = Sort{SBool, 0}

func bvSort(w int) Sort { return Sort{SBV, w} }
func fpSort(w int) Sort { return Sort{SFP, w} }

type Op uint8

const (
	OConst Op = iota
	OVar
	// bv
	OAdd
	OSub
	OMul
	OUDiv
	OURem
	OSDiv
	OSRem
	OAnd
	OOr
	OXor
	OBNot
	ONeg
	OShl
	OLShr
	OAShr
	OConcat
	OExtract // i1=hi i2=lo
	OZExt    // i1 = extra bits
	OSExt
	// predicates
	OEq
	OULt
	OULe
	OSLt
	OSLe
	// bool
	ONot
	OBAnd
	OBOr
	OIte
	// fp
	OFAdd
	OFSub
	OFMul
	OFDiv
	OFNeg
	OFAbs
	OFLt
	OFLe
	OFEq // fp.eq (IEEE ==)
	OFIsNaN
	OFIsInf
	OFToSBV // i1 = width, RTZ
	OFToUBV
	OSBVToF // i1 = fp width
	OUBVToF
	OFToF // i1 = fp width
	OFRoundRTZ // fp.roundToIntegral RTZ
	OFRoundRNE
	OFRoundRTP
	OFRoundRTN
	OBitsToF // reinterpret bv as fp
	OFSqrt
)

type Term struct {
	op   Op
	sort Sort
	args []*Term
	c    uint64 // constant payload: bv bits (masked), bool 0/1, float bits
	name string
	i1   int
	i2   int
	id   uint64
	size int // approximate dag size (saturating), used for sharing decisions
	sv      *Term // memo for singleVar
	svState int
}

var termCounter uint64

func mk(op Op, s Sort, args ...*Term) *Term {
	termCounter++
	sz := 1
	for _, a := range args {
		sz += a.size
		if sz > 1<<30 {
			sz = 1 << 30
		}
	}
	return &Term{op: op, sort: s, args: args, id: termCounter, size: sz}
}

func mask(w int) uint64 {
	if w >= 64 {
		return ^uint64(0)
	}
	return (uint64(1) << uint(w)) - 1
}

func (t *Term) IsConst() bool { return t.op == OConst }

// signed value of a constant bv
func (t *Term) SVal() int64 {
	w := t.sort.W
	v := t.c
	if w < 64 && v&(1<<uint(w-1)) != 0 {
		v |= ^mask(w)
	}
	return int64(v)
}
func (t *Term) UVal() uint64 { return t.c }
func (t *Term) BoolVal() bool { return t.c != 0 }

func BV(w int, v uint64) *Term {
	t := mk(OConst, bvSort(w))
	t.c = v & mask(w)
	return t
}

var termTrue, termFalse *Term

func init() {
	termTrue = mk(OConst, sortBool)
	termTrue.c = 1
	termFalse = mk(OConst, sortBool)
}

func Bool(b bool) *Term {
	if b {
		return termTrue
	}
	return termFalse
}

func FP64(f float64) *Term {
	t := mk(OConst, fpSort(64))
	t.c = math.Float64bits(f)
	return t
}
func FP32(f float32) *Term {
	t := mk(OConst, fpSort(32))
	t.c = uint64(math.Float32bits(f))
	return t
}
func (t *Term) FVal() float64 {
	if t.sort.W == 32 {
		return float64(math.Float32frombits(uint32(t.c)))
	}
	return math.Float64frombits(t.c)
}
func fpConst(w int, f float64) *Term {
	if w == 32 {
		return FP32(float32(f))
	}
	return FP64(f)
}

func Var(name string, s Sort) *Term {
	t := mk(OVar, s)
	t.name = name
	return t
}

func sext64(v uint64, w int) int64 {
	if w < 64 && v&(1<<uint(w-1)) != 0 {
		v |= ^mask(w)
	}
	return int64(v)
}

// ---- bit-vector constructors

func bvBin(op Op, a, b *Term) *Term {
	if a.sort != b.sort {
		panic(fmt.Sprintf("bvBin sort mismatch %v %v op %d", a.sort, b.sort, op))
	}
	w := a.sort.W
	if a.IsConst() && b.IsConst() {
		x, y := a.c, b.c
		var r uint64
		ok := true
		switch op {
		case OAdd:
			r = x + y
		case OSub:
			r = x - y
		case OMul:
			r = x * y
		case OUDiv:
			if y == 0 {
				r = mask(w)
			} else {
				r = x / y
			}
		case OURem:
			if y == 0 {
				r = x
			} else {
				r = x % y
			}
		case OSDiv:
			sx, sy := sext64(x, w), sext64(y, w)
			if sy == 0 {
				if sx < 0 {
					r = 1
				} else {
					r = mask(w)
				}
			} else if sy == -1 {
				r = uint64(-sx)
			} else {
				r = uint64(sx / sy)
			}
		case OSRem:
			sx, sy := sext64(x, w), sext64(y, w)
			if sy == 0 {
				r = x
			} else if sy == -1 {
				r = 0
			} else {
				r = uint64(sx % sy)
			}
		case OAnd:
			r = x & y
		case OOr:
			r = x | y
		case OXor:
			r = x ^ y
		case OShl:
			if y >= uint64(w) {
				r = 0
			} else {
				r = x << y
			}
		case OLShr:
			if y >= uint64(w) {
				r = 0
			} else {
				r = x >> y
			}
		case OAShr:
			sx := sext64(x, w)
			if y >= uint64(w) {
				if sx < 0 {
					r = mask(w)
				} else {
					r = 0
				}
			} else {
				r = uint64(sx >> y)
			}
		default:
			ok = false
		}
		if ok {
			return BV(w, r)
		}
	}
	// identities
	switch op {
	case OAdd:
		if a.IsConst() && a.c == 0 {
			return b
		}
		if b.IsConst() && b.c == 0 {
			return a
		}
	case OSub:
		if b.IsConst() && b.c == 0 {
			return a
		}
		if a == b {
			return BV(w, 0)
		}
	case OMul:
		if a.IsConst() {
			if a.c == 0 {
				return a
			}
			if a.c == 1 {
				return b
			}
		}
		if b.IsConst() {
			if b.c == 0 {
				return b
			}
			if b.c == 1 {
				return a
			}
		}
	case OUDiv, OSDiv:
		if b.IsConst() && b.c == 1 {
			return a
		}
	case OAnd:
		if a.IsConst() {
			if a.c == 0 {
				return a
			}
			if a.c == mask(w) {
				return b
			}
		}
		if b.IsConst() {
			if b.c == 0 {
				return b
			}
			if b.c == mask(w) {
				return a
			}
		}
		if a == b {
			return a
		}
	case OOr:
		if a.IsConst() && a.c == 0 {
			return b
		}
		if b.IsConst() && b.c == 0 {
			return a
		}
		if a == b {
			return a
		}
	case OXor:
		if a.IsConst() && a.c == 0 {
			return b
		}
		if b.IsConst() && b.c == 0 {
			return a
		}
		if a == b {
			return BV(w, 0)
		}
	case OShl, OLShr, OAShr:
		if b.IsConst() && b.c == 0 {
			return a
		}
	}
	return mk(op, a.sort, a, b)
}

func BVNot(a *Term) *Term {
	if a.IsConst() {
		return BV(a.sort.W, ^a.c)
	}
	return mk(OBNot, a.sort, a)
}
func BVNeg(a *Term) *Term {
	if a.IsConst() {
		return BV(a.sort.W, -a.c)
	}
	return mk(ONeg, a.sort, a)
}

func Extract(a *Term, hi, lo int) *Term {
	w := hi - lo + 1
	if lo == 0 && w == a.sort.W {
		return a
	}
	if a.IsConst() {
		return BV(w, a.c>>uint(lo))
	}
	// extract of zext/sext within the original
	if (a.op == OZExt || a.op == OSExt) && hi < a.args[0].sort.W {
		return Extract(a.args[0], hi, lo)
	}
	if a.op == OZExt && lo >= a.args[0].sort.W {
		return BV(w, 0)
	}
	t := mk(OExtract, bvSort(w), a)
	t.i1, t.i2 = hi, lo
	return t
}

func ZExt(a *Term, to int) *Term {
	if to == a.sort.W {
		return a
	}
	if to < a.sort.W {
		return Extract(a, to-1, 0)
	}
	if a.IsConst() {
		return BV(to, a.c)
	}
	if a.op == OZExt {
		return ZExt(a.args[0], to)
	}
	t := mk(OZExt, bvSort(to), a)
	t.i1 = to - a.sort.W
	return t
}

func SExt(a *Term, to int) *Term {
	if to == a.sort.W {
		return a
	}
	if to < a.sort.W {
		return Extract(a, to-1, 0)
	}
	if a.IsConst() {
		return BV(to, uint64(sext64(a.c, a.sort.W)))
	}
	if a.op == OZExt { // sign bit is 0
		return ZExt(a.args[0], to)
	}
	t := mk(OSExt, bvSort(to), a)
	t.i1 = to - a.sort.W
	return t
}

func Concat(hi, lo *Term) *Term {
	w := hi.sort.W + lo.sort.W
	if hi.IsConst() && lo.IsConst() && w <= 64 {
		return BV(w, hi.c<<uint(lo.sort.W)|lo.c)
	}
	return mk(OConcat, bvSort(w), hi, lo)
}

// ---- predicates

func Eq(a, b *Term) *Term {
	if a.sort != b.sort {
		panic(fmt.Sprintf("Eq sort mismatch %v %v", a.sort, b.sort))
	}
	if a == b && a.sort.K != SFP {
		return termTrue
	}
	if a.IsConst() && b.IsConst() {
		if a.sort.K == SFP {
			// structural equality on floats (used for = in SMT); callers wanting
			// IEEE equality use FEq.
			return Bool(a.c == b.c)
		}
		return Bool(a.c == b.c)
	}
	if a.sort.K == SBool {
		if a.IsConst() {
			if a.c != 0 {
				return b
			}
			return Not(b)
		}
		if b.IsConst() {
			if b.c != 0 {
				return a
			}
			return Not(a)
		}
	}
	// zext(x) == const  -> x == const' or false
	if a.IsConst() {
		a, b = b, a
	}
	if b.IsConst() && a.op == OZExt {
		inner := a.args[0]
		if b.c > mask(inner.sort.W) {
			return termFalse
		}
		return Eq(inner, BV(inner.sort.W, b.c))
	}
	if b.IsConst() && a.op == OSExt {
		inner := a.args[0]
		iw := inner.sort.W
		if uint64(sext64(b.c&mask(iw), iw))&mask(a.sort.W) != b.c {
			return termFalse
		}
		return Eq(inner, BV(iw, b.c))
	}
	// ite(c, k1, k2) == k  with constants
	if b.IsConst() && a.op == OIte && a.args[1].IsConst() && a.args[2].IsConst() {
		t1 := a.args[1].c == b.c
		t2 := a.args[2].c == b.c
		switch {
		case t1 && t2:
			return termTrue
		case t1:
			return a.args[0]
		case t2:
			return Not(a.args[0])
		default:
			return termFalse
		}
	}
	return mk(OEq, sortBool, a, b)
}

func cmpFold(op Op, a, b *Term) (*Term, bool) {
	if a.IsConst() && b.IsConst() {
		w := a.sort.W
		switch op {
		case OULt:
			return Bool(a.c < b.c), true
		case OULe:
			return Bool(a.c <= b.c), true
		case OSLt:
			return Bool(sext64(a.c, w) < sext64(b.c, w)), true
		case OSLe:
			return Bool(sext64(a.c, w) <= sext64(b.c, w)), true
		}
	}
	return nil, false
}

func Cmp(op Op, a, b *Term) *Term {
	if a.sort != b.sort {
		panic(fmt.Sprintf("Cmp sort mismatch %v %v", a.sort, b.sort))
	}
	if r, ok := cmpFold(op, a, b); ok {
		return r
	}
	if a == b {
		return Bool(op == OULe || op == OSLe)
	}
	// comparisons of zero-extended values against constants
	if a.op == OZExt && b.IsConst() {
		inner := a.args[0]
		iw := inner.sort.W
		neg := (op == OSLt || op == OSLe) && sext64(b.c, b.sort.W) < 0
		if neg {
			return termFalse
		}
		if b.c > mask(iw) {
			return termTrue
		}
		uop := op
		if op == OSLt {
			uop = OULt
		} else if op == OSLe {
			uop = OULe
		}
		return Cmp(uop, inner, BV(iw, b.c))
	}
	if b.op == OZExt && a.IsConst() {
		inner := b.args[0]
		iw := inner.sort.W
		neg := (op == OSLt || op == OSLe) && sext64(a.c, a.sort.W) < 0
		if neg {
			return termTrue
		}
		if a.c > mask(iw) {
			return termFalse
		}
		uop := op
		if op == OSLt {
			uop = OULt
		} else if op == OSLe {
			uop = OULe
		}
		return Cmp(uop, BV(iw, a.c), inner)
	}
	if op == OULt && b.IsConst() && b.c == 0 {
		return termFalse
	}
	if op == OULe && a.IsConst() && a.c == 0 {
		return termTrue
	}
	return mk(op, sortBool, a, b)
}

// ---- bool

func Not(a *Term) *Term {
	if a.IsConst() {
		return Bool(a.c == 0)
	}
	if a.op == ONot {
		return a.args[0]
	}
	return mk(ONot, sortBool, a)
}

func And(a, b *Term) *Term {
	if a.IsConst() {
		if a.c != 0 {
			return b
		}
		return termFalse
	}
	if b.IsConst() {
		if b.c != 0 {
			return a
		}
		return termFalse
	}
	if a == b {
		return a
	}
	return mk(OBAnd, sortBool, a, b)
}

func Or(a, b *Term) *Term {
	if a.IsConst() {
		if a.c != 0 {
			return termTrue
		}
		return b
	}
	if b.IsConst() {
		if b.c != 0 {
			return termTrue
		}
		return a
	}
	if a == b {
		return a
	}
	return mk(OBOr, sortBool, a, b)
}

func AndAll(ts ...*Term) *Term {
	r := termTrue
	for _, t := range ts {
		r = And(r, t)
	}
	return r
}

func Implies(a, b *Term) *Term { return Or(Not(a), b) }

func Ite(c, a, b *Term) *Term {
	if c.IsConst() {
		if c.c != 0 {
			return a
		}
		return b
	}
	if a == b {
		return a
	}
	if a.sort != b.sort {
		panic(fmt.Sprintf("Ite sort mismatch %v %v", a.sort, b.sort))
	}
	if a.IsConst() && b.IsConst() && a.c == b.c && a.sort.K != SFP {
		return a
	}
	if a.sort.K == SBool {
		if a.IsConst() && b.IsConst() {
			if a.c != 0 {
				return c
			}
			return Not(c)
		}
	}
	return mk(OIte, a.sort, c, a, b)
}

// ---- floating point

func fpBin(op Op, a, b *Term) *Term {
	if a.sort != b.sort {
		panic("fpBin sort mismatch")
	}
	if a.IsConst() && b.IsConst() {
		x, y := a.FVal(), b.FVal()
		w := a.sort.W
		if w == 32 {
			fx, fy := float32(x), float32(y)
			switch op {
			case OFAdd:
				return FP32(fx + fy)
			case OFSub:
				return FP32(fx - fy)
			case OFMul:
				return FP32(fx * fy)
			case OFDiv:
				return FP32(fx / fy)
			}
		} else {
			switch op {
			case OFAdd:
				return FP64(x + y)
			case OFSub:
				return FP64(x - y)
			case OFMul:
				return FP64(x * y)
			case OFDiv:
				return FP64(x / y)
			}
		}
	}
	return mk(op, a.sort, a, b)
}

func fpCmp(op Op, a, b *Term) *Term {
	if a.IsConst() && b.IsConst() {
		x, y := a.FVal(), b.FVal()
		switch op {
		case OFLt:
			return Bool(x < y)
		case OFLe:
			return Bool(x <= y)
		case OFEq:
			return Bool(x == y)
		}
	}
	if r := fpCmpInt(op, a, b); r != nil {
		return r
	}
	return mk(op, sortBool, a, b)
}

// intOfF: t is the float64 conversion of an integer term. exact: the integer is, by
// construction (constant-free extension of at most 53 bits), below 2^53 in magnitude,
// so the conversion is exact and order preserving. The returned term is the integer
// as a signed 64-bit value when exact.
func intOfF(t *Term) (src *Term, exact bool, ok bool) {
	if t.sort.W != 64 || (t.op != OSBVToF && t.op != OUBVToF) {
		return nil, false, false
	}
	s := t.args[0]
	signed := t.op == OSBVToF
	eff := s.sort.W
	switch s.op {
	case OZExt:
		eff = s.args[0].sort.W
		signed = false
	case OSExt:
		if signed {
			eff = s.args[0].sort.W
		}
	}
	if s.sort.W < 64 {
		if t.op == OSBVToF {
			s = SExt(s, 64)
		} else {
			s = ZExt(s, 64)
		}
	}
	return s, eff <= 53, true
}

// fpCmpInt rewrites comparisons between exact integer conversions into integer
// comparisons (keeps floating point out of the solver context where it is not needed).
func fpCmpInt(op Op, a, b *Term) *Term {
	sa, ea, oka := intOfF(a)
	sb, eb, okb := intOfF(b)
	// the same conversion of the same integer term (terms are not hash-consed: compare
	// the sources); an integer conversion is never NaN
	if oka && (a == b || (okb && a.op == b.op && a.sort == b.sort && a.args[0] == b.args[0])) {
		return Bool(op != OFLt)
	}
	if oka && okb && ea && eb {
		switch op {
		case OFEq:
			return Eq(sa, sb)
		case OFLt:
			return SLt(sa, sb)
		case OFLe:
			return SLe(sa, sb)
		}
	}
	// exact conversion against a constant
	cmpConst := func(s *Term, c float64, flip bool) *Term {
		if c != c {
			return termFalse
		}
		if c != math.Trunc(c) || math.Abs(c) >= 1<<53 {
			if op == OFEq && c != math.Trunc(c) {
				return termFalse
			}
			return nil
		}
		k := BV(64, uint64(int64(c)))
		switch {
		case op == OFEq:
			return Eq(s, k)
		case op == OFLt && !flip:
			return SLt(s, k)
		case op == OFLt:
			return SLt(k, s)
		case op == OFLe && !flip:
			return SLe(s, k)
		default:
			return SLe(k, s)
		}
	}
	// (for equality with an integer constant below 2^53 the conversion need not be exact:
	// rounding is monotonic and exact below 2^53, so to_fp(x) == c iff x == c)
	if oka && (ea || op == OFEq) && b.IsConst() {
		return cmpConst(sa, b.FVal(), false)
	}
	if okb && (eb || op == OFEq) && a.IsConst() {
		return cmpConst(sb, a.FVal(), true)
	}
	return nil
}

func fpUn(op Op, a *Term) *Term {
	if a.IsConst() {
		x := a.FVal()
		switch op {
		case OFNeg:
			return fpConst(a.sort.W, -x)
		case OFAbs:
			return fpConst(a.sort.W, math.Abs(x))
		case OFIsNaN:
			return Bool(math.IsNaN(x))
		case OFIsInf:
			return Bool(math.IsInf(x, 0))
		case OFRoundRTZ:
			return fpConst(a.sort.W, math.Trunc(x))
		case OFRoundRNE:
			return fpConst(a.sort.W, math.RoundToEven(x))
		case OFRoundRTP:
			return fpConst(a.sort.W, math.Ceil(x))
		case OFRoundRTN:
			return fpConst(a.sort.W, math.Floor(x))
		case OFSqrt:
			return fpConst(a.sort.W, math.Sqrt(x))
		}
	}
	s := a.sort
	if op == OFIsNaN || op == OFIsInf {
		s = sortBool
	}
	return mk(op, s, a)
}

// raw conversions (no Go out-of-range semantics; see conv in ops)
func FToSBV(a *Term, w int) *Term {
	t := mk(OFToSBV, bvSort(w), a)
	t.i1 = w
	return t
}
func FToUBV(a *Term, w int) *Term {
	t := mk(OFToUBV, bvSort(w), a)
	t.i1 = w
	return t
}
func SBVToF(a *Term, fw int) *Term {
	if a.IsConst() {
		return fpConst(fw, float64(a.SVal()))
	}
	t := mk(OSBVToF, fpSort(fw), a)
	t.i1 = fw
	return t
}
func UBVToF(a *Term, fw int) *Term {
	if a.IsConst() {
		return fpConst(fw, float64(a.c))
	}
	t := mk(OUBVToF, fpSort(fw), a)
	t.i1 = fw
	return t
}
func FToF(a *Term, fw int) *Term {
	if a.sort.W == fw {
		return a
	}
	if a.IsConst() {
		return fpConst(fw, a.FVal())
	}
	t := mk(OFToF, fpSort(fw), a)
	t.i1 = fw
	return t
}
func BitsToF(a *Term) *Term {
	if a.IsConst() {
		t := mk(OConst, fpSort(a.sort.W))
		t.c = a.c
		return t
	}
	return mk(OBitsToF, fpSort(a.sort.W), a)
}

// ---- printing (SMT-LIB2 with let-sharing)

var opNames = map[Op]string{
	OAdd: "bvadd", OSub: "bvsub", OMul: "bvmul", OUDiv: "bvudiv", OURem: "bvurem",
	OSDiv: "bvsdiv", OSRem: "bvsrem", OAnd: "bvand", OOr: "bvor", OXor: "bvxor",
	OBNot: "bvnot", ONeg: "bvneg", OShl: "bvshl", OLShr: "bvlshr", OAShr: "bvashr",
	OConcat: "concat", OEq: "=", OULt: "bvult", OULe: "bvule", OSLt: "bvslt", OSLe: "bvsle",
	ONot: "not", OBAnd: "and", OBOr: "or", OIte: "ite",
	OFAdd: "fp.add RNE", OFSub: "fp.sub RNE", OFMul: "fp.mul RNE", OFDiv: "fp.div RNE",
	OFNeg: "fp.neg", OFAbs: "fp.abs", OFLt: "fp.lt", OFLe: "fp.leq", OFEq: "fp.eq",
	OFIsNaN: "fp.isNaN", OFIsInf: "fp.isInfinite",
	OFRoundRTZ: "fp.roundToIntegral RTZ", OFRoundRNE: "fp.roundToIntegral RNE",
	OFRoundRTP: "fp.roundToIntegral RTP", OFRoundRTN: "fp.roundToIntegral RTN",
	OFSqrt: "fp.sqrt RNE",
}

func fpParams(w int) string {
	if w == 32 {
		return "8 24"
	}
	return "11 53"
}

func constStr(t *Term) string {
	switch t.sort.K {
	case SBool:
		if t.c != 0 {
			return "true"
		}
		return "false"
	case SBV:
		w := t.sort.W
		if w%4 == 0 {
			return fmt.Sprintf("#x%0*x", w/4, t.c)
		}
		return fmt.Sprintf("#b%0*b", w, t.c)
	case SFP:
		if t.sort.W == 32 {
			b := uint32(t.c)
			return fmt.Sprintf("(fp #b%01b #b%08b #b%023b)", b>>31, (b>>23)&0xff, b&0x7fffff)
		}
		b := t.c
		return fmt.Sprintf("(fp #b%01b #b%011b #b%052b)", b>>63, (b>>52)&0x7ff, b&((1<<52)-1))
	}
	return "?"
}

type printer struct {
	refs  map[*Term]int
	names map[*Term]string
	order []*Term
	sb    strings.Builder
}

func (p *printer) count(t *Term) {
	p.refs[t]++
	if p.refs[t] > 1 {
		return
	}
	for _, a := range t.args {
		p.count(a)
	}
}

func (p *printer) head(t *Term) string {
	switch t.op {
	case OExtract:
		return fmt.Sprintf("(_ extract %d %d)", t.i1, t.i2)
	case OZExt:
		return fmt.Sprintf("(_ zero_extend %d)", t.i1)
	case OSExt:
		return fmt.Sprintf("(_ sign_extend %d)", t.i1)
	case OFToSBV:
		return fmt.Sprintf("(_ fp.to_sbv %d) RTZ", t.i1)
	case OFToUBV:
		return fmt.Sprintf("(_ fp.to_ubv %d) RTZ", t.i1)
	case OSBVToF:
		return fmt.Sprintf("(_ to_fp %s) RNE", fpParams(t.i1))
	case OUBVToF:
		return fmt.Sprintf("(_ to_fp_unsigned %s) RNE", fpParams(t.i1))
	case OFToF:
		return fmt.Sprintf("(_ to_fp %s) RNE", fpParams(t.i1))
	case OBitsToF:
		return fmt.Sprintf("(_ to_fp %s)", fpParams(t.sort.W))
	}
	if s, ok := opNames[t.op]; ok {
		return s
	}
	panic(fmt.Sprintf("no printer for op %d", t.op))
}

func (p *printer) emit(t *Term, top bool) {
	if !top {
		if n, ok := p.names[t]; ok {
			p.sb.WriteString(n)
			return
		}
	}
	switch t.op {
	case OConst:
		p.sb.WriteString(constStr(t))
		return
	case OVar:
		p.sb.WriteString(t.name)
		return
	}
	p.sb.WriteByte('(')
	p.sb.WriteString(p.head(t))
	for _, a := range t.args {
		p.sb.WriteByte(' ')
		p.emit(a, false)
	}
	p.sb.WriteByte(')')
}

// collect shared nodes in post-order
func (p *printer) collect(t *Term, seen map[*Term]bool) {
	if seen[t] {
		return
	}
	seen[t] = true
	for _, a := range t.args {
		p.collect(a, seen)
	}
	if p.refs[t] > 1 && len(t.args) > 0 {
		p.order = append(p.order, t)
	}
}

// SMT renders t as an SMT-LIB2 expression.
func (t *Term) SMT() string {
	if len(t.args) == 0 {
		if t.op == OConst {
			return constStr(t)
		}
		return t.name
	}
	p := &printer{refs: map[*Term]int{}, names: map[*Term]string{}}
	p.count(t)
	p.collect(t, map[*Term]bool{})
	closers := 0
	for i, s := range p.order {
		if s == t {
			continue
		}
		name := fmt.Sprintf("l!%d", i)
		p.sb.WriteString("(let ((")
		p.sb.WriteString(name)
		p.sb.WriteByte(' ')
		p.emit(s, true)
		p.sb.WriteString(")) ")
		p.names[s] = name
		closers++
	}
	p.emit(t, true)
	for i := 0; i < closers; i++ {
		p.sb.WriteByte(')')
	}
	return p.sb.String()
}

// Vars collects the free variables of t into m.
func (t *Term) Vars(m map[string]*Term, seen map[*Term]bool) {
	if seen[t] {
		return
	}
	seen[t] = true
	if t.op == OVar {
		m[t.name] = t
		return
	}
	for _, a := range t.args {
		a.Vars(m, seen)
	}
}

// ---- evaluation under a concrete assignment (used for model caching)

type Model map[string]uint64 // var name -> bits (bool 0/1)

// Eval evaluates t under m. ok=false if a variable is missing or an op is unsupported.
func (t *Term) Eval(m Model, memo map[*Term]uint64) (uint64, bool) {
	if t.op == OConst {
		return t.c, true
	}
	if v, ok := memo[t]; ok {
		return v, true
	}
	var r uint64
	switch t.op {
	case OVar:
		v, ok := m[t.name]
		if !ok {
			return 0, false
		}
		r = v
	default:
		av := make([]uint64, len(t.args))
		for i, a := range t.args {
			v, ok := a.Eval(m, memo)
			if !ok {
				return 0, false
			}
			av[i] = v
		}
		cargs := make([]*Term, len(t.args))
		for i, a := range t.args {
			c := mk(OConst, a.sort)
			c.c = av[i]
			cargs[i] = c
		}
		var res *Term
		switch t.op {
		case OAdd, OSub, OMul, OUDiv, OURem, OSDiv, OSRem, OAnd, OOr, OXor, OShl, OLShr, OAShr:
			res = bvBin(t.op, cargs[0], cargs[1])
		case OBNot:
			res = BVNot(cargs[0])
		case ONeg:
			res = BVNeg(cargs[0])
		case OConcat:
			if t.sort.W > 64 {
				return 0, false
			}
			res = Concat(cargs[0], cargs[1])
		case OExtract:
			if t.args[0].sort.W > 64 {
				return 0, false
			}
			res = Extract(cargs[0], t.i1, t.i2)
		case OZExt:
			if t.sort.W > 64 {
				return 0, false
			}
			res = ZExt(cargs[0], t.sort.W)
		case OSExt:
			if t.sort.W > 64 {
				return 0, false
			}
			res = SExt(cargs[0], t.sort.W)
		case OEq:
			res = Bool(av[0] == av[1])
		case OULt, OULe, OSLt, OSLe:
			res, _ = cmpFold(t.op, cargs[0], cargs[1])
		case ONot:
			res = Bool(av[0] == 0)
		case OBAnd:
			res = Bool(av[0] != 0 && av[1] != 0)
		case OBOr:
			res = Bool(av[0] != 0 || av[1] != 0)
		case OIte:
			if av[0] != 0 {
				res = cargs[1]
			} else {
				res = cargs[2]
			}
		case OFAdd, OFSub, OFMul, OFDiv:
			res = fpBin(t.op, cargs[0], cargs[1])
		case OFLt, OFLe, OFEq:
			res = fpCmp(t.op, cargs[0], cargs[1])
		case OFNeg, OFAbs, OFIsNaN, OFIsInf, OFRoundRTZ, OFRoundRNE, OFRoundRTP, OFRoundRTN, OFSqrt:
			res = fpUn(t.op, cargs[0])
		case OSBVToF:
			res = SBVToF(cargs[0], t.i1)
		case OUBVToF:
			res = UBVToF(cargs[0], t.i1)
		case OFToF:
			res = FToF(cargs[0], t.i1)
		case OBitsToF:
			res = BitsToF(cargs[0])
		case OFToSBV:
			f := cargs[0].FVal()
			w := t.i1
			tr := math.Trunc(f)
			lim := math.Ldexp(1, w-1)
			if math.IsNaN(f) || tr < -lim || tr >= lim {
				return 0, false // unspecified in SMT-LIB
			}
			res = BV(w, uint64(int64(tr)))
		case OFToUBV:
			f := cargs[0].FVal()
			w := t.i1
			tr := math.Trunc(f)
			lim := math.Ldexp(1, w)
			if math.IsNaN(f) || tr < 0 || tr >= lim {
				return 0, false
			}
			res = BV(w, uint64(tr))
		default:
			return 0, false
		}
		if res == nil || !res.IsConst() {
			return 0, false
		}
		r = res.c
	}
	memo[t] = r
	return r, true
}

var _ = bits.Len64
