package main

// Go maps with possibly-symbolic keys. Iteration order is insertion order (one
// legal Go order); harnesses that need all orders call symMapOrder.

import (
	"fmt"
	"go/types"
	"strings"
	"unicode/utf8"
)

type mapEntry struct {
	k, v    value
	ck      string // canonical key when concrete
	conc    bool
	deleted bool
}

type Map struct {
	keyT    types.Type
	entries []*mapEntry
	index   map[string]*mapEntry
	nsym    int   // live entries with symbolic keys
	perm    []int // optional iteration permutation chosen by symMapOrder
}

func newMap(keyT types.Type) *Map {
	return &Map{keyT: keyT, index: map[string]*mapEntry{}}
}

func (m *Map) Len() int {
	if m == nil {
		return 0
	}
	return len(m.entries)
}

// concreteKey returns a canonical string for fully concrete comparable values.
func concreteKey(v value) (string, bool) {
	var sb strings.Builder
	if !writeKey(&sb, v) {
		return "", false
	}
	return sb.String(), true
}

func writeKey(sb *strings.Builder, v value) bool {
	switch v := v.(type) {
	case *Term:
		if !v.IsConst() {
			return false
		}
		if v.sort.K == SFP {
			// +0 == -0 as map keys; NaN never equal. Treat floats conservatively.
			f := v.FVal()
			if f != f {
				return false
			}
			if f == 0 {
				sb.WriteString("f0;")
				return true
			}
		}
		fmt.Fprintf(sb, "t%d:%x;", v.sort.W, v.c)
		return true
	case string:
		fmt.Fprintf(sb, "s%d:%s;", len(v), v)
		return true
	case *SymStr:
		return false
	case *value:
		fmt.Fprintf(sb, "p%p;", v)
		return true
	case structure:
		sb.WriteString("{")
		for _, e := range v {
			if !writeKey(sb, e) {
				return false
			}
		}
		sb.WriteString("}")
		return true
	case array:
		sb.WriteString("[")
		for _, e := range v {
			if !writeKey(sb, e) {
				return false
			}
		}
		sb.WriteString("]")
		return true
	case iface:
		if v.t == nil {
			sb.WriteString("inil;")
			return true
		}
		if !types.Comparable(v.t) {
			panic(targetPanic{msg: "runtime error: hash of unhashable type " + v.t.String()})
		}
		fmt.Fprintf(sb, "i<%s>", types.TypeString(v.t, nil))
		return writeKey(sb, v.v)
	case rtype:
		fmt.Fprintf(sb, "rt<%s>;", types.TypeString(v.t, nil))
		return true
	case uptr:
		fmt.Fprintf(sb, "u%p;", v.p)
		return true
	case *chanVal:
		fmt.Fprintf(sb, "c%p;", v)
		return true
	}
	panic(unsupported{fmt.Sprintf("map key of dynamic type %T", v)})
}

// find locates the entry equal to k, forking on symbolic comparisons.
func (m *Map) find(p *Path, k value) *mapEntry {
	if m == nil {
		return nil
	}
	ck, conc := concreteKey(k)
	if conc && m.nsym == 0 {
		return m.index[ck]
	}
	if conc {
		if e := m.index[ck]; e != nil {
			return e
		}
	}
	for _, e := range m.entries {
		if conc && e.conc {
			continue // different concrete keys
		}
		eq := equalsTerm(e.k, k)
		if p.decide(eq, "map key equality") {
			return e
		}
	}
	return nil
}

func (m *Map) lookup(p *Path, k value) (value, bool) {
	e := m.find(p, k)
	if e == nil {
		return nil, false
	}
	return e.v, true
}

func (m *Map) insert(p *Path, k, v value) {
	if m == nil {
		panic(targetPanic{msg: "assignment to entry in nil map"})
	}
	if e := m.find(p, k); e != nil {
		e.v = v
		return
	}
	e := &mapEntry{k: k, v: v}
	e.ck, e.conc = concreteKey(k)
	if e.conc {
		m.index[e.ck] = e
	} else {
		m.nsym++
	}
	m.entries = append(m.entries, e)
	m.perm = nil
}

func (m *Map) delete(p *Path, k value) {
	if m == nil {
		return
	}
	e := m.find(p, k)
	if e == nil {
		return
	}
	e.deleted = true
	if e.conc {
		delete(m.index, e.ck)
	} else {
		m.nsym--
	}
	for i, x := range m.entries {
		if x == e {
			m.entries = append(m.entries[:i:i], m.entries[i+1:]...)
			break
		}
	}
	m.perm = nil
}

func (m *Map) clear() {
	if m == nil {
		return
	}
	for _, e := range m.entries {
		e.deleted = true
	}
	m.entries = nil
	m.index = map[string]*mapEntry{}
	m.nsym = 0
	m.perm = nil
}

type iter interface {
	next(p *Path) tuple
}

type mapIter struct {
	snap []*mapEntry
	i    int
}

func (m *Map) iter() *mapIter {
	if m == nil {
		return &mapIter{}
	}
	snap := make([]*mapEntry, len(m.entries))
	if m.perm != nil && len(m.perm) == len(m.entries) {
		for i, j := range m.perm {
			snap[i] = m.entries[j]
		}
	} else {
		copy(snap, m.entries)
	}
	return &mapIter{snap: snap}
}

// iterOrd is iter with the path's global map-order choice (symMapOrderAll): maps
// without an explicit permutation are ranged in reverse insertion order when rev is set.
func (m *Map) iterOrd(rev bool) *mapIter {
	it := m.iter()
	if rev && (m == nil || m.perm == nil) {
		for i, j := 0, len(it.snap)-1; i < j; i, j = i+1, j-1 {
			it.snap[i], it.snap[j] = it.snap[j], it.snap[i]
		}
	}
	return it
}

func (it *mapIter) next(p *Path) tuple {
	for it.i < len(it.snap) {
		e := it.snap[it.i]
		it.i++
		if e.deleted {
			continue
		}
		return tuple{termTrue, copyVal(e.k), copyVal(e.v)}
	}
	return tuple{termFalse, nil, nil}
}

type stringIter struct {
	s value
	i int
}

func (it *stringIter) next(p *Path) tuple {
	n := strLen(it.s)
	if it.i >= n {
		return tuple{termFalse, nil, nil}
	}
	if s, ok := it.s.(string); ok {
		r, w := utf8.DecodeRuneInString(s[it.i:])
		idx := it.i
		it.i += w
		return tuple{termTrue, BV(64, uint64(idx)), BV(32, uint64(uint32(r)))}
	}
	r, w := decodeRuneSym(p, strBytes(it.s)[it.i:])
	idx := it.i
	it.i += w
	return tuple{termTrue, BV(64, uint64(idx)), r}
}

// decodeRuneSym decodes the first UTF-8 sequence of b (len(b) > 0) with Go's
// semantics (invalid ⇒ U+FFFD, width 1), forking on the byte classes.
func decodeRuneSym(p *Path, b []*Term) (*Term, int) {
	n := len(b)
	b0 := b[0]
	in := func(t *Term, lo, hi byte) *Term {
		return And(Cmp(OULe, byteConst(lo), t), Cmp(OULe, t, byteConst(hi)))
	}
	bad := BV(32, 0xFFFD)
	z32 := func(t *Term) *Term { return ZExt(t, 32) }
	if p.decide(Cmp(OULt, b0, byteConst(0x80)), "utf8 ascii") {
		return z32(b0), 1
	}
	// 2-byte: C2..DF
	if p.decide(in(b0, 0xC2, 0xDF), "utf8 lead2") {
		if n < 2 || !p.decide(in(b[1], 0x80, 0xBF), "utf8 cont") {
			return bad, 1
		}
		r := bvBin(OOr, bvBin(OShl, bvBin(OAnd, z32(b0), BV(32, 0x1F)), BV(32, 6)), bvBin(OAnd, z32(b[1]), BV(32, 0x3F)))
		return r, 2
	}
	// 3-byte: E0..EF
	if p.decide(in(b0, 0xE0, 0xEF), "utf8 lead3") {
		if n < 3 {
			return bad, 1
		}
		// second byte range depends on lead
		lo := Ite(Eq(b0, byteConst(0xE0)), byteConst(0xA0), byteConst(0x80))
		hi := Ite(Eq(b0, byteConst(0xED)), byteConst(0x9F), byteConst(0xBF))
		ok1 := And(Cmp(OULe, lo, b[1]), Cmp(OULe, b[1], hi))
		if !p.decide(ok1, "utf8 cont1") || !p.decide(in(b[2], 0x80, 0xBF), "utf8 cont2") {
			return bad, 1
		}
		r := bvBin(OOr, bvBin(OOr,
			bvBin(OShl, bvBin(OAnd, z32(b0), BV(32, 0x0F)), BV(32, 12)),
			bvBin(OShl, bvBin(OAnd, z32(b[1]), BV(32, 0x3F)), BV(32, 6))),
			bvBin(OAnd, z32(b[2]), BV(32, 0x3F)))
		return r, 3
	}
	// 4-byte: F0..F4
	if p.decide(in(b0, 0xF0, 0xF4), "utf8 lead4") {
		if n < 4 {
			return bad, 1
		}
		lo := Ite(Eq(b0, byteConst(0xF0)), byteConst(0x90), byteConst(0x80))
		hi := Ite(Eq(b0, byteConst(0xF4)), byteConst(0x8F), byteConst(0xBF))
		ok1 := And(Cmp(OULe, lo, b[1]), Cmp(OULe, b[1], hi))
		if !p.decide(ok1, "utf8 cont1") || !p.decide(in(b[2], 0x80, 0xBF), "utf8 cont2") || !p.decide(in(b[3], 0x80, 0xBF), "utf8 cont3") {
			return bad, 1
		}
		r := bvBin(OOr, bvBin(OOr, bvBin(OOr,
			bvBin(OShl, bvBin(OAnd, z32(b0), BV(32, 0x07)), BV(32, 18)),
			bvBin(OShl, bvBin(OAnd, z32(b[1]), BV(32, 0x3F)), BV(32, 12))),
			bvBin(OShl, bvBin(OAnd, z32(b[2]), BV(32, 0x3F)), BV(32, 6))),
			bvBin(OAnd, z32(b[3]), BV(32, 0x3F)))
		return r, 4
	}
	return bad, 1
}

// encodeRuneSym encodes rune r as UTF-8 with Go semantics (invalid ⇒ U+FFFD).
func encodeRuneSym(p *Path, r *Term) []*Term {
	if r.IsConst() {
		s := string(rune(int32(r.c)))
		return strBytes(s)
	}
	b8 := func(t *Term) *Term { return Extract(t, 7, 0) }
	sh := func(t *Term, n int) *Term { return bvBin(OLShr, t, BV(32, uint64(n))) }
	and := func(t *Term, m uint64) *Term { return bvBin(OAnd, t, BV(32, m)) }
	or := func(t *Term, m uint64) *Term { return bvBin(OOr, t, BV(32, m)) }
	if p.decide(Cmp(OULt, r, BV(32, 0x80)), "rune ascii") {
		return []*Term{b8(r)}
	}
	if p.decide(Cmp(OULt, r, BV(32, 0x800)), "rune 2") {
		return []*Term{b8(or(sh(r, 6), 0xC0)), b8(or(and(r, 0x3F), 0x80))}
	}
	surrogate := And(Cmp(OULe, BV(32, 0xD800), r), Cmp(OULe, r, BV(32, 0xDFFF)))
	if p.decide(Or(surrogate, Cmp(OULt, BV(32, 0x10FFFF), r)), "rune invalid") {
		return strBytes("�")
	}
	if p.decide(Cmp(OULt, r, BV(32, 0x10000)), "rune 3") {
		return []*Term{b8(or(sh(r, 12), 0xE0)), b8(or(and(sh(r, 6), 0x3F), 0x80)), b8(or(and(r, 0x3F), 0x80))}
	}
	return []*Term{b8(or(sh(r, 18), 0xF0)), b8(or(and(sh(r, 12), 0x3F), 0x80)), b8(or(and(sh(r, 6), 0x3F), 0x80)), b8(or(and(r, 0x3F), 0x80))}
}
