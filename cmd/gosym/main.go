package main

// gosym: bounded symbolic execution of Go SSA for the /verif checks.
//
//   gosym check -p C09 [-tier quick|thorough]     run every harness of a property
//   gosym run -pkg util -h H_C09_x [-v]           run one harness (development)
//   gosym replay <file>                           natively replay a stored vector

import (
	"encoding/json"
	"flag"
	"fmt"
	"os"
	"path/filepath"
	"runtime/pprof"
	"sort"
	"strconv"
	"strings"
	"time"
)

type PropSpec struct {
	ID        string   `json:"id"`
	Pkgs      []string `json:"pkgs"`      // package dirs under /repo that hold harnesses
	Gen       []GenSpec `json:"gen"`      // generator runs needed before loading
	Quick     []string `json:"quick"`     // harness names in the quick tier
	Thorough  []string `json:"thorough"`  // harness names in the thorough tier (superset usually)
	Level     string   `json:"level"`
	Bounds    map[string]string `json:"bounds"`
	Assumptions []string `json:"assumptions"`
}

type GenSpec struct {
	PkgDir string   `json:"pkgdir"` // virtual package dir under /repo
	Yang   []string `json:"yang"`   // files under /verif/gen/yang
	Args   []string `json:"args"`
	Kind   string   `json:"kind"` // "go" | "path"
	Package string  `json:"package"`
	YangDir string  `json:"yangdir"` // directory under /verif/gen holding the files (default "yang")
}

type KnownFinding struct {
	Property string `json:"property"`
	ID       string `json:"id"`
	Status   string `json:"status"` // open | fixed
	What     string `json:"what"`
	Witness  interface{} `json:"witness,omitempty"`
	Commit   string `json:"commit,omitempty"`
}

func loadProps() map[string]*PropSpec {
	data, err := os.ReadFile(filepath.Join(verifDir, "props.json"))
	if err != nil {
		fatal("props.json: %v", err)
	}
	var list []*PropSpec
	if err := json.Unmarshal(data, &list); err != nil {
		fatal("props.json: %v", err)
	}
	m := map[string]*PropSpec{}
	for _, p := range list {
		m[p.ID] = p
	}
	return m
}

func loadKnown() []KnownFinding {
	data, err := os.ReadFile(filepath.Join(verifDir, "known_findings.json"))
	if err != nil {
		return nil
	}
	var k []KnownFinding
	if err := json.Unmarshal(data, &k); err != nil {
		fatal("known_findings.json: %v", err)
	}
	return k
}

func fatal(f string, a ...interface{}) {
	fmt.Fprintf(os.Stderr, "gosym: "+f+"\n", a...)
	os.Exit(2)
}

func main() {
	if len(os.Args) < 2 {
		fatal("usage: gosym check|run|replay ...")
	}
	if v := os.Getenv("VERIF_DIR"); v != "" {
		verifDir = v
	}
	if v := os.Getenv("VERIF_REPO"); v != "" {
		repoDir = v
	}
	if pf := os.Getenv("GOSYM_CPUPROFILE"); pf != "" {
		if f, err := os.Create(pf); err == nil {
			pprof.StartCPUProfile(f)
			exit := func(c int) { pprof.StopCPUProfile(); f.Close(); os.Exit(c) }
			switch os.Args[1] {
			case "check":
				exit(cmdCheck(os.Args[2:]))
			case "run":
				exit(cmdRun(os.Args[2:]))
			}
		}
	}
	switch os.Args[1] {
	case "check":
		os.Exit(cmdCheck(os.Args[2:]))
	case "run":
		os.Exit(cmdRun(os.Args[2:]))
	case "replay":
		os.Exit(cmdReplay(os.Args[2:]))
	default:
		fatal("unknown command %s", os.Args[1])
	}
}

func defaultOpts(tier string) ExploreOpts {
	o := ExploreOpts{Workers: 16, MaxPaths: 20000, Fuel: 2000000, Solver: "z3", TimeoutMs: 10000, Samples: 24}
	o.Deadline = time.Now().Add(4 * time.Minute)
	if tier == "thorough" {
		o.Tier = 1
		o.MaxPaths = 400000
		o.TimeoutMs = 60000
		o.Deadline = time.Now().Add(12 * time.Minute) // per harness; exhausting it is reported as INCONCLUSIVE
	}
	return o
}

func applyHarnessOpts(o ExploreOpts, h *HarnessSpec, tier string) ExploreOpts {
	get := func(k string) string {
		if v, ok := h.Opts[k+"."+tier]; ok {
			return v
		}
		return h.Opts[k]
	}
	if v := get("fuel"); v != "" {
		o.Fuel, _ = strconv.Atoi(v)
	}
	if v := get("maxpaths"); v != "" {
		o.MaxPaths, _ = strconv.Atoi(v)
	}
	if v := get("solver"); v != "" {
		o.Solver = v
	}
	if v := get("timeout_ms"); v != "" {
		o.TimeoutMs, _ = strconv.Atoi(v)
	}
	if v := get("workers"); v != "" {
		o.Workers, _ = strconv.Atoi(v)
	}
	if v := get("minutes"); v != "" {
		m, _ := strconv.ParseFloat(v, 64)
		o.Deadline = time.Now().Add(time.Duration(m * float64(time.Minute)))
	}
	if v := os.Getenv("GOSYM_MINUTES"); v != "" { // debugging aid
		m, _ := strconv.ParseFloat(v, 64)
		o.Deadline = time.Now().Add(time.Duration(m * float64(time.Minute)))
	}
	return o
}

func cmdRun(args []string) int {
	fs := flag.NewFlagSet("run", flag.ExitOnError)
	pkg := fs.String("pkg", "", "package dir under /repo")
	hn := fs.String("h", "", "harness name")
	tier := fs.String("tier", "quick", "tier")
	verbose := fs.Bool("v", false, "verbose")
	trace := fs.Bool("trace", false, "trace instructions")
	workers := fs.Int("w", 16, "workers")
	native := fs.Bool("native", true, "confirm natively")
	prop := fs.String("p", "", "property whose generator runs are needed (generated-code harnesses)")
	fs.Parse(args)
	tmp, _ := os.MkdirTemp("", "gosym")
	defer os.RemoveAll(tmp)
	if *prop != "" {
		if ps := loadProps()[*prop]; ps != nil {
			if err := runGenerators(ps, tmp); err != nil {
				fatal("%v", err)
			}
		}
	}
	ld, err := prepareOverlay(strings.Split(*pkg, ","), tmp)
	if err != nil {
		fatal("%v", err)
	}
	if err := ld.load(); err != nil {
		fatal("%v", err)
	}
	fmt.Fprintf(os.Stderr, "loaded in %v\n", ld.loadTime)
	ld.eng.trace = *trace
	h := ld.harnesses[*hn]
	if h == nil || h.Fn == nil {
		fatal("no harness %s", *hn)
	}
	o := applyHarnessOpts(defaultOpts(*tier), h, *tier)
	o.Workers = *workers
	if s := os.Getenv("GOSYM_SOLVER"); s != "" {
		o.Solver = s
	}
	res := ld.explore(h, o)
	printResult(res, *verbose)
	if *native && len(res.Results) > 0 {
		confirmResults(ld, h, res, o.Tier)
	}
	return 0
}

func printResult(res *HarnessResult, verbose bool) {
	fmt.Printf("%s: paths=%d %v decisions=%d forks=%d asserts=%d passed=%d concrete-asserts=%d queries=%d solver=%.2fs wall=%.2fs maxsteps=%d\n",
		res.Name, res.Paths, res.ByStatus, res.Decisions, res.ForkPoints, res.Asserts, res.Passed, res.ConcAsserts, res.Queries, res.SolverTime.Seconds(), res.Wall.Seconds(), res.MaxSteps)
	var rk []string
	for k, n := range res.Reached {
		rk = append(rk, fmt.Sprintf("%s:%d", k, n))
	}
	sort.Strings(rk)
	fmt.Printf("  reached: %s\n", strings.Join(rk, " "))
	for _, i := range res.Inconclusive {
		fmt.Printf("  INCONCLUSIVE: %s\n", i)
	}
	for _, r := range res.Results {
		js, _ := json.Marshal(r.Inputs)
		fmt.Printf("  WITNESS kind=%s label=%q known=%q inputs=%s\n", r.Kind, r.Label, r.Known, js)
	}
	if verbose {
		for _, s := range res.Samples {
			js, _ := json.Marshal(s)
			fmt.Printf("  sample %s\n", js)
		}
	}
}

type confirmed struct {
	r     AssertResult
	ok    bool
	trace []string
}

func confirmResults(ld *Loaded, h *HarnessSpec, res *HarnessResult, tier int) []confirmed {
	bin, err := ld.buildNative(h.PkgDir)
	if err != nil {
		fmt.Fprintln(os.Stderr, err)
		return nil
	}
	var vecs []Vector
	for _, r := range res.Results {
		r.Inputs["__tier"] = strconv.Itoa(tier)
		vecs = append(vecs, Vector{Harness: h.Name, Inputs: r.Inputs})
	}
	traces, err := ld.runNative(bin, vecs, 2*time.Minute)
	if err != nil {
		fmt.Fprintln(os.Stderr, err)
		return nil
	}
	var out []confirmed
	for i, r := range res.Results {
		ok := confirms(r, traces[i])
		out = append(out, confirmed{r, ok, traces[i].Lines})
		fmt.Printf("  native[%d] reproduces=%v trace=%v\n", i, ok, traces[i].Lines)
	}
	return out
}

func cmdReplay(args []string) int {
	if len(args) < 1 {
		fatal("usage: gosym replay <file>")
	}
	data, err := os.ReadFile(args[0])
	if err != nil {
		fatal("%v", err)
	}
	var rp struct {
		Property string `json:"property"`
		PkgDir   string `json:"pkgdir"`
		Vector
		Label string `json:"label"`
		Kind  string `json:"kind"`
	}
	if err := json.Unmarshal(data, &rp); err != nil {
		fatal("%v", err)
	}
	tmp, _ := os.MkdirTemp("", "gosym")
	defer os.RemoveAll(tmp)
	props := loadProps()
	if ps := props[rp.Property]; ps != nil {
		if err := runGenerators(ps, tmp); err != nil {
			fatal("%v", err)
		}
	}
	pkgDirs := []string{rp.PkgDir}
	if ps := props[rp.Property]; ps != nil {
		for _, d := range ps.Pkgs {
			if d != rp.PkgDir {
				pkgDirs = append(pkgDirs, d)
			}
		}
	}
	ld, err := prepareOverlay(pkgDirs, tmp)
	if err != nil {
		fatal("%v", err)
	}
	bin, err := ld.buildNative(rp.PkgDir)
	if err != nil {
		fatal("%v", err)
	}
	traces, err := ld.runNative(bin, []Vector{rp.Vector}, 2*time.Minute)
	if err != nil {
		fatal("%v", err)
	}
	for _, l := range traces[0].Lines {
		fmt.Println(l)
	}
	if confirms(AssertResult{Label: rp.Label, Kind: rp.Kind}, traces[0]) {
		fmt.Printf("REPRODUCED property=%s label=%q\n", rp.Property, rp.Label)
		return 1
	}
	fmt.Println("not reproduced")
	return 0
}
