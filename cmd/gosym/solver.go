package main

// One live SMT solver process per worker, driven over pipes with push/pop.

import (
	"bufio"
	"fmt"
	"io"
	"os"
	"os/exec"
	"strconv"
	"strings"
	"time"
)

type SatResult int

const (
	Unsat SatResult = iota
	Sat
	Unknown
)

func (r SatResult) String() string { return [...]string{"unsat", "sat", "unknown"}[r] }

type Solver struct {
	kind     string // z3 | z3-new | cvc5 | cvc5-int
	cmd      *exec.Cmd
	in       io.WriteCloser
	w        *bufio.Writer
	out      *bufio.Reader
	declared []map[string]bool // per push level
	Queries  int
	Time     time.Duration
	Errors   int
	log      io.Writer
	timeout  int // ms
	dead     bool

	lastAssert string
}

func NewSolver(kind string, timeoutMs int) (*Solver, error) {
	var cmd *exec.Cmd
	switch kind {
	case "z3":
		cmd = exec.Command("z3", "-in")
	case "z3-new":
		cmd = exec.Command("z3-new", "-in")
	case "cvc5":
		cmd = exec.Command("cvc5", "--incremental", "--produce-models", "--lang=smt2", fmt.Sprintf("--tlimit-per=%d", timeoutMs))
	case "cvc5-int":
		cmd = exec.Command("cvc5", "--incremental", "--produce-models", "--lang=smt2", "--solve-bv-as-int=sum", fmt.Sprintf("--tlimit-per=%d", timeoutMs))
	default:
		return nil, fmt.Errorf("unknown solver %q", kind)
	}
	in, err := cmd.StdinPipe()
	if err != nil {
		return nil, err
	}
	outp, err := cmd.StdoutPipe()
	if err != nil {
		return nil, err
	}
	cmd.Stderr = os.Stderr
	if err := cmd.Start(); err != nil {
		return nil, err
	}
	s := &Solver{kind: kind, cmd: cmd, in: in, w: bufio.NewWriterSize(in, 1<<16), out: bufio.NewReaderSize(outp, 1<<20), timeout: timeoutMs}
	s.declared = []map[string]bool{{}}
	if strings.HasPrefix(kind, "z3") {
		s.send("(set-option :produce-models true)")
		s.send(fmt.Sprintf("(set-option :timeout %d)", timeoutMs))
	} else {
		s.send("(set-logic ALL)")
	}
	if p := os.Getenv("GOSYM_SMTLOG"); p != "" {
		f, _ := os.OpenFile(p, os.O_CREATE|os.O_WRONLY|os.O_APPEND, 0644)
		s.log = f
	}
	return s, nil
}

func (s *Solver) send(line string) {
	if s.dead {
		return
	}
	if s.log != nil {
		fmt.Fprintln(s.log, line)
	}
	if _, err := s.w.WriteString(line + "\n"); err != nil {
		s.dead = true
	}
}

func (s *Solver) Close() {
	if s.cmd != nil {
		s.in.Close()
		s.cmd.Process.Kill()
		s.cmd.Wait()
	}
}

func (s *Solver) Push() {
	s.send("(push 1)")
	s.declared = append(s.declared, map[string]bool{})
}

func (s *Solver) Pop() {
	s.send("(pop 1)")
	s.declared = s.declared[:len(s.declared)-1]
}

func (s *Solver) Depth() int { return len(s.declared) - 1 }

func (s *Solver) isDeclared(n string) bool {
	for _, m := range s.declared {
		if m[n] {
			return true
		}
	}
	return false
}

func (s *Solver) declareVars(t *Term) {
	vars := map[string]*Term{}
	t.Vars(vars, map[*Term]bool{})
	for n, v := range vars {
		if !s.isDeclared(n) {
			s.send(fmt.Sprintf("(declare-const %s %s)", n, v.sort))
			s.declared[len(s.declared)-1][n] = true
		}
	}
}

func (s *Solver) Declare(v *Term) {
	if !s.isDeclared(v.name) {
		s.send(fmt.Sprintf("(declare-const %s %s)", v.name, v.sort))
		s.declared[len(s.declared)-1][v.name] = true
	}
}

func (s *Solver) Assert(t *Term) {
	s.declareVars(t)
	smt := t.SMT()
	if slowQueryMs > 0 {
		s.lastAssert = smt
	}
	s.send("(assert " + smt + ")")
}

// slowQueryMs (GOSYM_SLOWMS, debugging aid): log queries slower than this.
var slowQueryMs, _ = strconv.Atoi(os.Getenv("GOSYM_SLOWMS"))

func (s *Solver) readLine() (string, error) {
	l, err := s.out.ReadString('\n')
	return strings.TrimSpace(l), err
}

func (s *Solver) Check() SatResult {
	if s.dead {
		return Unknown
	}
	start := time.Now()
	s.send("(check-sat)")
	s.w.Flush()
	s.Queries++
	defer func() {
		d := time.Since(start)
		s.Time += d
		if slowQueryMs > 0 && d > time.Duration(slowQueryMs)*time.Millisecond {
			la := s.lastAssert
			if len(la) > 600 {
				la = la[:600] + "..."
			}
			fmt.Fprintf(os.Stderr, "SLOW %v: %s\n", d, la)
		}
	}()
	for {
		l, err := s.readLine()
		if err != nil {
			s.dead = true
			return Unknown
		}
		switch {
		case l == "sat":
			return Sat
		case l == "unsat":
			return Unsat
		case l == "unknown" || l == "timeout":
			return Unknown
		case strings.HasPrefix(l, "(error"):
			s.Errors++
			fmt.Fprintln(os.Stderr, "solver error:", l)
			// an error line precedes nothing else for check-sat in z3; keep reading
			// only if the error was for an earlier command.
			if strings.Contains(l, "check-sat") {
				return Unknown
			}
			continue
		case l == "":
			continue
		default:
			fmt.Fprintln(os.Stderr, "solver: unexpected line:", l)
			s.Errors++
			continue
		}
	}
}

// CheckWith checks satisfiability of the current context plus extra.
func (s *Solver) CheckWith(extra ...*Term) SatResult {
	s.Push()
	for _, t := range extra {
		s.Assert(t)
	}
	r := s.Check()
	s.Pop()
	return r
}

// readSexp reads one balanced s-expression from the solver.
func (s *Solver) readSexp() (string, error) {
	var sb strings.Builder
	depth := 0
	started := false
	for {
		b, err := s.out.ReadByte()
		if err != nil {
			s.dead = true
			return sb.String(), err
		}
		if !started {
			if b == ' ' || b == '\n' || b == '\r' || b == '\t' {
				continue
			}
			started = true
			if b != '(' {
				// atom: read to end of line
				sb.WriteByte(b)
				rest, _ := s.out.ReadString('\n')
				sb.WriteString(strings.TrimSpace(rest))
				return sb.String(), nil
			}
		}
		sb.WriteByte(b)
		if b == '(' {
			depth++
		} else if b == ')' {
			depth--
			if depth == 0 {
				return sb.String(), nil
			}
		}
	}
}

// GetModel must be called right after a Sat answer, in the same context.
func (s *Solver) GetModel(vars []*Term) (Model, error) {
	m := Model{}
	if len(vars) == 0 {
		return m, nil
	}
	var sb strings.Builder
	sb.WriteString("(get-value (")
	for _, v := range vars {
		sb.WriteString(v.name)
		sb.WriteByte(' ')
	}
	sb.WriteString("))")
	s.send(sb.String())
	s.w.Flush()
	resp, err := s.readSexp()
	if err != nil {
		return nil, err
	}
	if strings.HasPrefix(resp, "(error") {
		s.Errors++
		return nil, fmt.Errorf("get-value: %s", resp)
	}
	toks := tokenize(resp)
	// expect ( ( name value ) ( name value ) ... )
	pos := 0
	next := func() string { t := toks[pos]; pos++; return t }
	if next() != "(" {
		return nil, fmt.Errorf("bad model: %s", resp)
	}
	byName := map[string]*Term{}
	for _, v := range vars {
		byName[v.name] = v
	}
	for pos < len(toks) && toks[pos] == "(" {
		next()
		name := next()
		// value: atom or parenthesised
		var val []string
		if toks[pos] == "(" {
			d := 0
			for {
				t := next()
				val = append(val, t)
				if t == "(" {
					d++
				} else if t == ")" {
					d--
					if d == 0 {
						break
					}
				}
			}
		} else {
			val = []string{next()}
		}
		if next() != ")" {
			return nil, fmt.Errorf("bad model entry for %s: %s", name, resp)
		}
		v := byName[name]
		if v == nil {
			continue
		}
		bitsv, err := parseValue(val, v.sort)
		if err != nil {
			return nil, fmt.Errorf("model value %s: %v (%v)", name, err, val)
		}
		m[name] = bitsv
	}
	return m, nil
}

func tokenize(s string) []string {
	var toks []string
	i := 0
	for i < len(s) {
		c := s[i]
		switch {
		case c == '(' || c == ')':
			toks = append(toks, string(c))
			i++
		case c == ' ' || c == '\n' || c == '\t' || c == '\r':
			i++
		case c == '|':
			j := strings.IndexByte(s[i+1:], '|')
			toks = append(toks, s[i:i+j+2])
			i += j + 2
		default:
			j := i
			for j < len(s) && !strings.ContainsRune("() \n\t\r", rune(s[j])) {
				j++
			}
			toks = append(toks, s[i:j])
			i = j
		}
	}
	return toks
}

func parseBVLit(t string) (uint64, int, error) {
	if strings.HasPrefix(t, "#x") {
		v, err := strconv.ParseUint(t[2:], 16, 64)
		return v, 4 * (len(t) - 2), err
	}
	if strings.HasPrefix(t, "#b") {
		v, err := strconv.ParseUint(t[2:], 2, 64)
		return v, len(t) - 2, err
	}
	return 0, 0, fmt.Errorf("not a bv literal: %s", t)
}

func parseValue(val []string, s Sort) (uint64, error) {
	switch s.K {
	case SBool:
		if val[0] == "true" {
			return 1, nil
		}
		if val[0] == "false" {
			return 0, nil
		}
		return 0, fmt.Errorf("bad bool")
	case SBV:
		if len(val) == 1 {
			v, _, err := parseBVLit(val[0])
			return v, err
		}
		// (_ bv123 8)
		if len(val) == 5 && val[1] == "_" && strings.HasPrefix(val[2], "bv") {
			v, err := strconv.ParseUint(val[2][2:], 10, 64)
			return v, err
		}
		return 0, fmt.Errorf("bad bv")
	case SFP:
		ew, sw := 11, 52
		if s.W == 32 {
			ew, sw = 8, 23
		}
		// (fp #b0 #b... #x...)
		if len(val) == 6 && val[1] == "fp" {
			sg, _, e1 := parseBVLit(val[2])
			ex, _, e2 := parseBVLit(val[3])
			si, _, e3 := parseBVLit(val[4])
			if e1 != nil || e2 != nil || e3 != nil {
				return 0, fmt.Errorf("bad fp literal")
			}
			return sg<<uint(ew+sw) | ex<<uint(sw) | si, nil
		}
		// (_ +zero 11 53) (_ -zero ..) (_ +oo ..) (_ -oo ..) (_ NaN ..)
		if len(val) >= 5 && val[1] == "_" {
			expAll := (uint64(1)<<uint(ew) - 1) << uint(sw)
			switch val[2] {
			case "+zero":
				return 0, nil
			case "-zero":
				return uint64(1) << uint(ew+sw), nil
			case "+oo":
				return expAll, nil
			case "-oo":
				return uint64(1)<<uint(ew+sw) | expAll, nil
			case "NaN":
				return expAll | uint64(1)<<uint(sw-1), nil
			}
		}
		return 0, fmt.Errorf("bad fp")
	}
	return 0, fmt.Errorf("bad sort")
}
