package main

import "math"

// Ev evaluates t under the assignment m without allocating terms.
// ok=false if a variable is missing or the result is unspecified (fp→int out of range).
func (t *Term) Ev(m Model) (uint64, bool) {
	if t.size > 48 {
		return t.evMemo(m, map[*Term]uint64{})
	}
	return t.ev(m, nil)
}

func (t *Term) evMemo(m Model, memo map[*Term]uint64) (uint64, bool) {
	return t.ev(m, memo)
}

func fbits(w int, f float64) uint64 {
	if w == 32 {
		return uint64(math.Float32bits(float32(f)))
	}
	return math.Float64bits(f)
}

func ffrom(w int, b uint64) float64 {
	if w == 32 {
		return float64(math.Float32frombits(uint32(b)))
	}
	return math.Float64frombits(b)
}

func (t *Term) ev(m Model, memo map[*Term]uint64) (uint64, bool) {
	switch t.op {
	case OConst:
		return t.c, true
	case OVar:
		v, ok := m[t.name]
		return v, ok
	}
	if memo != nil {
		if v, ok := memo[t]; ok {
			return v, true
		}
	}
	var a, b, c uint64
	var ok bool
	n := len(t.args)
	// short-circuit forms first
	switch t.op {
	case OIte:
		if c, ok = t.args[0].ev(m, memo); !ok {
			return 0, false
		}
		var r uint64
		if c != 0 {
			r, ok = t.args[1].ev(m, memo)
		} else {
			r, ok = t.args[2].ev(m, memo)
		}
		if ok && memo != nil {
			memo[t] = r
		}
		return r, ok
	case OBAnd:
		if a, ok = t.args[0].ev(m, memo); !ok {
			return 0, false
		}
		if a == 0 {
			return 0, true
		}
		return t.args[1].ev(m, memo)
	case OBOr:
		if a, ok = t.args[0].ev(m, memo); !ok {
			return 0, false
		}
		if a != 0 {
			return 1, true
		}
		return t.args[1].ev(m, memo)
	}
	if n >= 1 {
		if a, ok = t.args[0].ev(m, memo); !ok {
			return 0, false
		}
	}
	if n >= 2 {
		if b, ok = t.args[1].ev(m, memo); !ok {
			return 0, false
		}
	}
	w := t.sort.W
	var aw int
	if n >= 1 {
		aw = t.args[0].sort.W
	}
	var r uint64
	switch t.op {
	case OAdd:
		r = (a + b) & mask(w)
	case OSub:
		r = (a - b) & mask(w)
	case OMul:
		r = (a * b) & mask(w)
	case OUDiv:
		if b == 0 {
			r = mask(w)
		} else {
			r = a / b
		}
	case OURem:
		if b == 0 {
			r = a
		} else {
			r = a % b
		}
	case OSDiv:
		sx, sy := sext64(a, w), sext64(b, w)
		if sy == 0 {
			if sx < 0 {
				r = 1
			} else {
				r = mask(w)
			}
		} else if sy == -1 {
			r = uint64(-sx) & mask(w)
		} else {
			r = uint64(sx/sy) & mask(w)
		}
	case OSRem:
		sx, sy := sext64(a, w), sext64(b, w)
		if sy == 0 {
			r = a
		} else if sy == -1 {
			r = 0
		} else {
			r = uint64(sx%sy) & mask(w)
		}
	case OAnd:
		r = a & b
	case OOr:
		r = a | b
	case OXor:
		r = a ^ b
	case OBNot:
		r = ^a & mask(w)
	case ONeg:
		r = (-a) & mask(w)
	case OShl:
		if b >= uint64(w) {
			r = 0
		} else {
			r = (a << b) & mask(w)
		}
	case OLShr:
		if b >= uint64(w) {
			r = 0
		} else {
			r = a >> b
		}
	case OAShr:
		sx := sext64(a, w)
		if b >= uint64(w) {
			if sx < 0 {
				r = mask(w)
			}
		} else {
			r = uint64(sx>>b) & mask(w)
		}
	case OConcat:
		if w > 64 {
			return 0, false
		}
		r = a<<uint(t.args[1].sort.W) | b
	case OExtract:
		if aw > 64 {
			return 0, false
		}
		r = (a >> uint(t.i2)) & mask(w)
	case OZExt:
		if w > 64 {
			return 0, false
		}
		r = a
	case OSExt:
		if w > 64 {
			return 0, false
		}
		r = uint64(sext64(a, aw)) & mask(w)
	case OEq:
		r = b2u(a == b)
	case OULt:
		r = b2u(a < b)
	case OULe:
		r = b2u(a <= b)
	case OSLt:
		r = b2u(sext64(a, aw) < sext64(b, aw))
	case OSLe:
		r = b2u(sext64(a, aw) <= sext64(b, aw))
	case ONot:
		r = b2u(a == 0)
	case OFAdd, OFSub, OFMul, OFDiv:
		x, y := ffrom(w, a), ffrom(w, b)
		var z float64
		if w == 32 {
			fx, fy := float32(x), float32(y)
			switch t.op {
			case OFAdd:
				z = float64(fx + fy)
			case OFSub:
				z = float64(fx - fy)
			case OFMul:
				z = float64(fx * fy)
			default:
				z = float64(fx / fy)
			}
		} else {
			switch t.op {
			case OFAdd:
				z = x + y
			case OFSub:
				z = x - y
			case OFMul:
				z = x * y
			default:
				z = x / y
			}
		}
		r = fbits(w, z)
	case OFLt:
		r = b2u(ffrom(aw, a) < ffrom(aw, b))
	case OFLe:
		r = b2u(ffrom(aw, a) <= ffrom(aw, b))
	case OFEq:
		r = b2u(ffrom(aw, a) == ffrom(aw, b))
	case OFNeg:
		r = fbits(w, -ffrom(w, a))
	case OFAbs:
		r = fbits(w, math.Abs(ffrom(w, a)))
	case OFIsNaN:
		x := ffrom(aw, a)
		r = b2u(x != x)
	case OFIsInf:
		r = b2u(math.IsInf(ffrom(aw, a), 0))
	case OFRoundRTZ:
		r = fbits(w, math.Trunc(ffrom(w, a)))
	case OFRoundRNE:
		r = fbits(w, math.RoundToEven(ffrom(w, a)))
	case OFRoundRTP:
		r = fbits(w, math.Ceil(ffrom(w, a)))
	case OFRoundRTN:
		r = fbits(w, math.Floor(ffrom(w, a)))
	case OFSqrt:
		r = fbits(w, math.Sqrt(ffrom(w, a)))
	case OSBVToF:
		r = fbits(t.i1, float64(sext64(a, aw)))
	case OUBVToF:
		r = fbits(t.i1, float64(a))
	case OFToF:
		r = fbits(t.i1, ffrom(aw, a))
	case OBitsToF:
		r = a
	case OFToSBV:
		f := ffrom(aw, a)
		tr := math.Trunc(f)
		lim := math.Ldexp(1, t.i1-1)
		if f != f || tr < -lim || tr >= lim {
			return 0, false
		}
		r = uint64(int64(tr)) & mask(t.i1)
	case OFToUBV:
		f := ffrom(aw, a)
		tr := math.Trunc(f)
		lim := math.Ldexp(1, t.i1)
		if f != f || tr < 0 || tr >= lim {
			return 0, false
		}
		r = uint64(tr) & mask(t.i1)
	default:
		return 0, false
	}
	if memo != nil {
		memo[t] = r
	}
	return r, true
}

func b2u(b bool) uint64 {
	if b {
		return 1
	}
	return 0
}
