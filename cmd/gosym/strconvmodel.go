package main

// strconv.ParseInt / ParseUint / Atoi: native when the argument is concrete; when the
// argument is exactly the base-10 rendering of an integer term (produced by the
// engine's own FormatInt/Itoa/%d model) the documented round-trip guarantee
// ParseInt(FormatInt(x, 10), 10, 64) == x is used instead of re-parsing the digits;
// otherwise the real strconv code is interpreted from its SSA.

import (
	"go/types"
	"strconv"

	"golang.org/x/tools/go/ssa"
)

type decInfo struct {
	x      *Term
	signed bool
}

// numError builds a *strconv.NumError whose Err is strconv.ErrSyntax / ErrRange.
func (p *Path) numError(fn, s, why string) value {
	pkg := p.eng.pkgs["strconv"]
	if pkg == nil {
		return p.mkError("strconv." + fn + ": parsing " + strconv.Quote(s) + ": " + why)
	}
	var errv value = iface{}
	name := "ErrSyntax"
	if why == strconv.ErrRange.Error() {
		name = "ErrRange"
	}
	if g, ok := pkg.Members[name].(*ssa.Global); ok {
		errv = copyVal(*p.globalAddr(g))
	} else {
		errv = p.mkError(why)
	}
	cell := value(structure{fn, s, errv})
	return iface{t: types.NewPointer(pkg.Type("NumError").Type()), v: &cell}
}

func addStrconv(e *Engine, m map[string]intrinsic) {
	interp := func(name string, p *Path, fr *frame, args []value) value {
		fn := e.funcByName(name)
		if fn == nil {
			panic(unsupported{name + " not loaded"})
		}
		return p.callSSABody(fr, fn, args)
	}
	// fits reports (as a term) whether the signed/unsigned 64-bit source value fits the target.
	m["strconv.ParseInt"] = func(p *Path, fr *frame, args []value) value {
		base, bits := mustInt(args[1], "ParseInt base"), mustInt(args[2], "ParseInt bitSize")
		if s, ok := args[0].(string); ok {
			v, err := strconv.ParseInt(s, int(base), int(bits))
			if err != nil {
				return tupleOf(BV(64, uint64(v)), p.numError("ParseInt", s, err.(*strconv.NumError).Err.Error()))
			}
			return tupleOf(BV(64, uint64(v)), iface{})
		}
		if ss, ok := args[0].(*SymStr); ok && ss.dec != nil && (base == 10 || base == 0) && ss.taint == "" {
			p.eng.noteStub("strconv round trip ParseInt(FormatInt(x))")
			if bits == 0 {
				bits = 64
			}
			x := ss.dec.x
			w := x.sort.W
			var x64 *Term
			var inRange *Term
			if ss.dec.signed {
				x64 = SExt(x, 64)
				if bits >= 64 || int(bits) >= w {
					inRange = termTrue
				} else {
					lo := BV(64, uint64(-(int64(1) << uint(bits-1))))
					hi := BV(64, uint64((int64(1)<<uint(bits-1))-1))
					inRange = And(Cmp(OSLe, lo, x64), Cmp(OSLe, x64, hi))
				}
			} else {
				x64 = ZExt(x, 64)
				if bits > 64 {
					bits = 64
				}
				hi := BV(64, uint64((int64(1)<<uint(bits-1))-1))
				if bits == 64 {
					hi = BV(64, 1<<63-1)
				}
				inRange = Cmp(OULe, x64, hi)
			}
			if p.decide(inRange, "ParseInt range") {
				return tupleOf(x64, iface{})
			}
			// out of range: strconv returns the clamped value and ErrRange
			return tupleOf(BV(64, 0), p.numError("ParseInt", "?", strconv.ErrRange.Error()))
		}
		return interp("strconv.ParseInt", p, fr, args)
	}
	m["strconv.ParseUint"] = func(p *Path, fr *frame, args []value) value {
		base, bits := mustInt(args[1], "ParseUint base"), mustInt(args[2], "ParseUint bitSize")
		if s, ok := args[0].(string); ok {
			v, err := strconv.ParseUint(s, int(base), int(bits))
			if err != nil {
				return tupleOf(BV(64, v), p.numError("ParseUint", s, err.(*strconv.NumError).Err.Error()))
			}
			return tupleOf(BV(64, v), iface{})
		}
		if ss, ok := args[0].(*SymStr); ok && ss.dec != nil && (base == 10 || base == 0) && ss.taint == "" {
			p.eng.noteStub("strconv round trip ParseUint(FormatUint(x))")
			if bits == 0 || bits > 64 {
				bits = 64
			}
			x := ss.dec.x
			var x64, ok2 *Term
			if ss.dec.signed {
				x64 = SExt(x, 64)
				ok2 = Cmp(OSLe, BV(64, 0), x64) // a leading '-' is a syntax error
			} else {
				x64 = ZExt(x, 64)
				ok2 = termTrue
			}
			if bits < 64 {
				ok2 = And(ok2, Cmp(OULe, x64, BV(64, (uint64(1)<<uint(bits))-1)))
			}
			if p.decide(ok2, "ParseUint range") {
				return tupleOf(x64, iface{})
			}
			return tupleOf(BV(64, 0), p.numError("ParseUint", "?", strconv.ErrRange.Error()))
		}
		return interp("strconv.ParseUint", p, fr, args)
	}
	m["strconv.Atoi"] = func(p *Path, fr *frame, args []value) value {
		if s, ok := args[0].(string); ok {
			v, err := strconv.Atoi(s)
			if err != nil {
				return tupleOf(BV(64, uint64(int64(v))), p.numError("Atoi", s, err.(*strconv.NumError).Err.Error()))
			}
			return tupleOf(BV(64, uint64(int64(v))), iface{})
		}
		return interp("strconv.Atoi", p, fr, args)
	}
	m["strconv.ParseBool"] = func(p *Path, fr *frame, args []value) value {
		if s, ok := args[0].(string); ok {
			v, err := strconv.ParseBool(s)
			if err != nil {
				return tupleOf(termFalse, p.numError("ParseBool", s, "invalid syntax"))
			}
			return tupleOf(Bool(v), iface{})
		}
		return interp("strconv.ParseBool", p, fr, args)
	}
}
