package main

// Engine side of the harness API (see harness/symapi.go.tmpl for the native side).

import (
	"fmt"
	"go/types"
	"strconv"
	"strings"
)

type intrinsic = func(p *Path, fr *frame, args []value) value

var symAPI map[string]intrinsic

func cstr(v value) string {
	s, ok := v.(string)
	if !ok {
		panic(unsupported{"sym API: name/label must be a concrete string"})
	}
	return s
}

func (p *Path) concreteInput(name string) (interface{}, bool) {
	if p.concreteInputs == nil {
		return nil, false
	}
	v, ok := p.concreteInputs[name]
	return v, ok
}

func parseIntInput(v interface{}, w int) uint64 {
	switch x := v.(type) {
	case string:
		if strings.HasPrefix(x, "0x") {
			u, _ := strconv.ParseUint(x[2:], 16, 64)
			return u
		}
		if i, err := strconv.ParseInt(x, 10, 64); err == nil {
			return uint64(i)
		}
		u, _ := strconv.ParseUint(x, 10, 64)
		return u
	case float64:
		return uint64(int64(x))
	case bool:
		if x {
			return 1
		}
	}
	return 0
}

func (p *Path) symScalar(name, kind string, s Sort) *Term {
	if p.concreteInputs != nil {
		name = p.freshName(name)
		raw := p.concreteInputs[name]
		bitsv := parseIntInput(raw, s.W)
		switch s.K {
		case SBool:
			return Bool(bitsv != 0)
		case SBV:
			return BV(s.W, bitsv)
		default:
			t := mk(OConst, s)
			t.c = bitsv
			return t
		}
	}
	v := p.newVar(name, kind, s)
	p.solver.Declare(v)
	return v
}

func (p *Path) symBytesN(name string, n int, kind string) []*Term {
	name = p.freshName(name)
	if p.concreteInputs != nil {
		hexs, _ := p.concreteInputs[name].(string)
		out := make([]*Term, n)
		for i := 0; i < n; i++ {
			var b uint64
			if 2*i+2 <= len(hexs) {
				b, _ = strconv.ParseUint(hexs[2*i:2*i+2], 16, 8)
			}
			out[i] = byteConst(byte(b))
		}
		return out
	}
	rec := InputRec{Name: name, Kind: kind}
	for i := 0; i < n; i++ {
		v := Var(fmt.Sprintf("|%s[%d]|", name, i), bvSort(8))
		p.solver.Declare(v)
		if p.lastModel != nil {
			p.lastModel[v.name] = 0
		}
		rec.Vars = append(rec.Vars, v)
	}
	p.inputs = append(p.inputs, rec)
	return rec.Vars
}

// symChooseN forks n ways and returns a concrete index.
func (p *Path) symChooseN(name string, n int) int {
	if n <= 1 {
		return 0
	}
	if p.concreteInputs != nil {
		name = p.freshName(name)
		v := int(parseIntInput(p.concreteInputs[name], 32))
		if v < 0 || v >= n {
			v = 0
		}
		return v
	}
	v := p.newVar(name, "choice", bvSort(32))
	p.solver.Declare(v)
	if !p.decideX(Cmp(OULt, v, BV(32, uint64(n))), false) {
		panic(pathEnd{status: "infeasible"})
	}
	for i := 0; i < n-1; i++ {
		if p.decide(Eq(v, BV(32, uint64(i))), "choice") {
			return i
		}
	}
	return n - 1
}

func init() {
	scalar := func(kind string, s Sort) intrinsic {
		return func(p *Path, fr *frame, args []value) value {
			return p.symScalar(cstr(args[0]), kind, s)
		}
	}
	symAPI = map[string]intrinsic{
		"symBool":    scalar("bool", sortBool),
		"symInt8":    scalar("int8", bvSort(8)),
		"symInt16":   scalar("int16", bvSort(16)),
		"symInt32":   scalar("int32", bvSort(32)),
		"symInt64":   scalar("int64", bvSort(64)),
		"symInt":     scalar("int64", bvSort(64)),
		"symUint8":   scalar("uint8", bvSort(8)),
		"symByte":    scalar("uint8", bvSort(8)),
		"symUint16":  scalar("uint16", bvSort(16)),
		"symUint32":  scalar("uint32", bvSort(32)),
		"symUint64":  scalar("uint64", bvSort(64)),
		"symFloat64": scalar("float64", fpSort(64)),
		"symFloat32": scalar("float32", fpSort(32)),
		"symRune":    scalar("int32", bvSort(32)),
		// symStringN(name, n): exactly n arbitrary bytes
		"symStringN": func(p *Path, fr *frame, args []value) value {
			n := int(mustInt(args[1], "symStringN length"))
			return mkStr(p.symBytesN(cstr(args[0]), n, "string"))
		},
		// symString(name, max): every length 0..max (forks)
		"symString": func(p *Path, fr *frame, args []value) value {
			max := int(mustInt(args[1], "symString max"))
			name := cstr(args[0])
			n := p.symChooseN(name+".len", max+1)
			return mkStr(p.symBytesN(name, n, "string"))
		},
		"symBytesN": func(p *Path, fr *frame, args []value) value {
			n := int(mustInt(args[1], "symBytesN length"))
			bs := p.symBytesN(cstr(args[0]), n, "bytes")
			out := make([]value, n)
			for i, b := range bs {
				out[i] = b
			}
			return out
		},
		"symBytes": func(p *Path, fr *frame, args []value) value {
			max := int(mustInt(args[1], "symBytes max"))
			name := cstr(args[0])
			n := p.symChooseN(name+".len", max+1)
			bs := p.symBytesN(name, n, "bytes")
			out := make([]value, n)
			for i, b := range bs {
				out[i] = b
			}
			return out
		},
		"symChoose": func(p *Path, fr *frame, args []value) value {
			n := int(mustInt(args[1], "symChoose n"))
			return BV(64, uint64(p.symChooseN(cstr(args[0]), n)))
		},
		"symAssume": func(p *Path, fr *frame, args []value) value {
			c := args[0].(*Term)
			if c.IsConst() {
				if c.c == 0 {
					p.traceLines = append(p.traceLines, "INFEASIBLE")
					panic(pathEnd{status: "infeasible"})
				}
				return nil
			}
			if !p.decideX(c, false) {
				panic(pathEnd{status: "infeasible"})
			}
			return nil
		},
		"symAssert": func(p *Path, fr *frame, args []value) value {
			c := args[0].(*Term)
			if p.concreteInputs != nil {
				if !c.IsConst() {
					panic(unsupported{"non-constant assertion in concrete mode"})
				}
				if c.c == 0 {
					p.traceLines = append(p.traceLines, "ASSERTFAIL "+cstr(args[1]))
					panic(pathEnd{status: "violation", msg: cstr(args[1])})
				}
				p.traceLines = append(p.traceLines, "ASSERTOK "+cstr(args[1]))
				return nil
			}
			p.checkProperty(c, cstr(args[1]), "assert")
			return nil
		},
		"symReach": func(p *Path, fr *frame, args []value) value {
			p.reached = append(p.reached, cstr(args[0]))
			p.traceLines = append(p.traceLines, "REACH "+cstr(args[0]))
			return nil
		},
		"symTier": func(p *Path, fr *frame, args []value) value { return BV(64, uint64(p.tier)) },
		"symKnown": func(p *Path, fr *frame, args []value) value {
			p.known = append(p.known, knownRegion{id: cstr(args[0]), pred: args[1].(*Term)})
			return nil
		},
		"symExpectPanic": func(p *Path, fr *frame, args []value) value {
			p.expectPanic = true
			return nil
		},
		// non-forking boolean connectives
		"symAnd": func(p *Path, fr *frame, args []value) value { return And(args[0].(*Term), args[1].(*Term)) },
		"symOr":  func(p *Path, fr *frame, args []value) value { return Or(args[0].(*Term), args[1].(*Term)) },
		"symImplies": func(p *Path, fr *frame, args []value) value {
			return Implies(args[0].(*Term), args[1].(*Term))
		},
		"symIte": func(p *Path, fr *frame, args []value) value {
			c := args[0].(*Term)
			a, aok := args[1].(*Term)
			b, bok := args[2].(*Term)
			if aok && bok {
				return Ite(c, a, b)
			}
			if p.decide(c, "symIte") {
				return args[1]
			}
			return args[2]
		},
		"symObserve": func(p *Path, fr *frame, args []value) value {
			p.observed = append(p.observed, cstr(args[0])+"="+p.observeString(args[1]))
			p.traceLines = append(p.traceLines, "OBS "+cstr(args[0])+"="+p.observeString(args[1]))
			return nil
		},
		// symMapOrder(m): fork over every iteration order of m (small maps)
		"symMapOrder": func(p *Path, fr *frame, args []value) value {
			it, ok := args[0].(iface)
			if !ok {
				panic(unsupported{"symMapOrder argument"})
			}
			m, ok := it.v.(*Map)
			if !ok || m == nil {
				return nil
			}
			n := len(m.entries)
			if n > 4 {
				panic(unsupported{"symMapOrder on map with more than 4 entries"})
			}
			perm := make([]int, 0, n)
			rest := make([]int, n)
			for i := range rest {
				rest[i] = i
			}
			for len(rest) > 0 {
				k := p.symChooseN(fmt.Sprintf("maporder%d", len(p.names)), len(rest))
				perm = append(perm, rest[k])
				rest = append(rest[:k:k], rest[k+1:]...)
			}
			m.perm = perm
			return nil
		},
		"symIsSymbolic": func(p *Path, fr *frame, args []value) value { return Bool(p.concreteInputs == nil) },
		// symMapOrderAll(): fork once; on one side every map without an explicit
		// permutation is ranged in reverse insertion order (two of the legal Go orders).
		"symMapOrderAll": func(p *Path, fr *frame, args []value) value {
			p.revMaps = p.symChooseN("maporderall", 2) == 1
			return nil
		},
		// symContains(s, sub): strings.Contains as a single term (no forking)
		"symContains": func(p *Path, fr *frame, args []value) value {
			s, sub := strBytes(args[0]), strBytes(args[1])
			r := termFalse
			for i := 0; i+len(sub) <= len(s); i++ {
				r = Or(r, hasPrefixTerm(s[i:], sub))
			}
			return r
		},
		// symDecimalLexical(s): s is in the RFC 7950 decimal64 lexical form
		// (optional sign, digits, optional '.' digits).
		"symDecimalLexical": func(p *Path, fr *frame, args []value) value {
			if ss, ok := args[0].(*SymStr); ok && ss.flt != nil {
				// %v of a float64: exponent form iff x != 0 and (|x| < 1e-4 or |x| >= 1e21);
				// NaN/Inf render as words.
				x := ss.flt
				if ss.fltF {
					return And(Not(fpUn(OFIsNaN, x)), Not(fpUn(OFIsInf, x)))
				}
				ax := fpUn(OFAbs, x)
				hasExp := And(Not(fpCmp(OFEq, x, FP64(0))), Or(fpCmp(OFLt, ax, FP64(1e-4)), fpCmp(OFLe, FP64(1e21), ax)))
				return And(Not(fpUn(OFIsNaN, x)), And(Not(fpUn(OFIsInf, x)), Not(hasExp)))
			}
			if ss, ok := args[0].(*SymStr); ok && ss.dec != nil {
				return termTrue
			}
			ro, err := p.compileRe(`^[+-]?[0-9]+(\.[0-9]+)?$`, false)
			if err != nil {
				panic(unsupported{err.Error()})
			}
			if s, ok := args[0].(string); ok {
				return Bool(ro.re.MatchString(s))
			}
			return p.matchTerm(ro.prog, p.runesOf(args[0]))
		},
		// symDecimalIs(s, v, signed): s is exactly the base-10 rendering of v
		"symDecimalIs": func(p *Path, fr *frame, args []value) value {
			v := args[1].(*Term)
			signed := args[2].(*Term).c != 0
			if ss, ok := args[0].(*SymStr); ok && ss.dec != nil && ss.taint == "" {
				var x *Term
				if ss.dec.signed {
					x = SExt(ss.dec.x, 64)
				} else {
					x = ZExt(ss.dec.x, 64)
				}
				if ss.dec.signed != signed {
					// renderings agree only on the common non-negative range
					return And(Eq(x, v), Cmp(OSLe, BV(64, 0), v))
				}
				return Eq(x, v)
			}
			want := p.formatIntSym(v, signed)
			return strEq(args[0], want)
		},
		// symSharesMemory(a, b): some mutable heap location (pointer target, slice
		// element, map) is reachable from both a and b.
		"symSharesMemory": func(p *Path, fr *frame, args []value) value {
			la, lb := map[interface{}]bool{}, map[interface{}]bool{}
			collectLocs(args[0], la, map[interface{}]bool{})
			collectLocs(args[1], lb, map[interface{}]bool{})
			for k := range la {
				if lb[k] {
					return termTrue
				}
			}
			return termFalse
		},
		// symSnapshot(v): a structural deep copy made by the engine itself (pointers,
		// slices, maps followed; sharing inside v preserved), independent of any copy
		// routine of the code under test.
		"symSnapshot": func(p *Path, fr *frame, args []value) value {
			return deepClone(args[0], map[interface{}]value{})
		},
		// symDecimal(v int64) / symUDecimal(v uint64): base-10 rendering
		"symDecimal": func(p *Path, fr *frame, args []value) value {
			t := args[0].(*Term)
			if t.IsConst() {
				return strconv.FormatInt(t.SVal(), 10)
			}
			return p.formatIntSym(t, true)
		},
		"symUDecimal": func(p *Path, fr *frame, args []value) value {
			t := args[0].(*Term)
			if t.IsConst() {
				return strconv.FormatUint(t.c, 10)
			}
			return p.formatIntSym(t, false)
		},
		// symStrEq(a, b): a == b as a single term
		"symStrEq": func(p *Path, fr *frame, args []value) value { return strEq(args[0], args[1]) },
	}
}

// observeString renders a concrete value for trace comparison with the native run.
func (p *Path) observeString(v value) string {
	if it, ok := v.(iface); ok {
		if it.t == nil {
			return "<nil>"
		}
		return p.observeTyped(it.t, it.v)
	}
	return toString(v)
}

func (p *Path) observeTyped(t types.Type, v value) string {
	switch x := v.(type) {
	case *Term:
		if !x.IsConst() {
			return "?"
		}
		switch x.sort.K {
		case SBool:
			return fmt.Sprint(x.c != 0)
		case SFP:
			return fmt.Sprintf("%x", x.c)
		}
		if isSigned(t) {
			return fmt.Sprint(x.SVal())
		}
		return fmt.Sprint(x.c)
	case string:
		return fmt.Sprintf("%q", x)
	case *SymStr:
		return "?"
	case []value:
		if st, ok := t.Underlying().(*types.Slice); ok {
			var parts []string
			for _, e := range x {
				parts = append(parts, p.observeTyped(st.Elem(), e))
			}
			return "[" + strings.Join(parts, " ") + "]"
		}
	case *value:
		if x == nil {
			return "<nil>"
		}
		return "&" + p.observeTyped(deref(t), *x)
	}
	return fmt.Sprintf("<%T>", v)
}
