package main

import (
	"fmt"
	"go/constant"
	"go/token"
	"go/types"
	"math"

	"golang.org/x/tools/go/ssa"
)

func constValue(c *ssa.Const) value {
	if c.Value == nil {
		return zero(c.Type()) // typed zero / nil
	}
	t := c.Type()
	if b, ok := t.Underlying().(*types.Basic); ok {
		if b.Info()&types.IsString != 0 {
			return constant.StringVal(c.Value)
		}
		s, ok := basicSort(b)
		if !ok {
			panic(unsupported{fmt.Sprintf("constant of type %v", t)})
		}
		switch s.K {
		case SBool:
			return Bool(constant.BoolVal(c.Value))
		case SBV:
			if b.Info()&types.IsUnsigned != 0 {
				return BV(s.W, c.Uint64())
			}
			return BV(s.W, uint64(c.Int64()))
		case SFP:
			return fpConst(s.W, c.Float64())
		}
	}
	if _, ok := t.Underlying().(*types.TypeParam); ok {
		panic(unsupported{"constant of type-parameter type"})
	}
	panic(unsupported{fmt.Sprintf("constant %v of type %v", c, t)})
}

func asInt(v value) (int64, bool) {
	t, ok := v.(*Term)
	if !ok || !t.IsConst() {
		return 0, false
	}
	return t.SVal(), true
}

func mustInt(v value, what string) int64 {
	n, ok := asInt(v)
	if !ok {
		panic(unsupported{"symbolic " + what})
	}
	return n
}

// concretizeInt forks until the integer term is concrete within [lo,hi].
func (p *Path) concretizeInt(t *Term, lo, hi int64, what string) int64 {
	if t.IsConst() {
		return t.SVal()
	}
	if hi-lo > 64 {
		panic(unsupported{fmt.Sprintf("symbolic %s with range %d..%d", what, lo, hi)})
	}
	for v := lo; v < hi; v++ {
		if p.decide(Eq(t, BV(t.sort.W, uint64(v))), what) {
			return v
		}
	}
	return hi
}

func runtimePanic(msg string) targetPanic {
	return targetPanic{msg: "runtime error: " + msg}
}

// equalsTerm returns the term for Go's == on two values of the same static type.
func equalsTerm(x, y value) *Term {
	switch x := x.(type) {
	case *Term:
		yt := y.(*Term)
		if x.sort.K == SFP {
			return fpCmp(OFEq, x, yt)
		}
		return Eq(x, yt)
	case string, *SymStr:
		return strEq(x, y)
	case *value:
		return Bool(x == y.(*value))
	case structure:
		ys := y.(structure)
		r := termTrue
		for i := range x {
			r = And(r, equalsTerm(x[i], ys[i]))
		}
		return r
	case array:
		ys := y.(array)
		r := termTrue
		for i := range x {
			r = And(r, equalsTerm(x[i], ys[i]))
		}
		return r
	case iface:
		yi := y.(iface)
		if x.t == nil || yi.t == nil {
			return Bool(x.t == nil && yi.t == nil)
		}
		if !types.Identical(x.t, yi.t) {
			return termFalse
		}
		if !types.Comparable(x.t) {
			panic(targetPanic{msg: "runtime error: comparing uncomparable type " + x.t.String()})
		}
		return equalsTerm(x.v, yi.v)
	case rtype:
		return Bool(types.Identical(x.t, y.(rtype).t))
	case uptr:
		return Bool(x.p == y.(uptr).p)
	case *chanVal:
		return Bool(x == y.(*chanVal))
	case *Map:
		return Bool(x == y.(*Map))
	case *rval:
		panic(unsupported{"== on reflect.Value"})
	}
	panic(unsupported{fmt.Sprintf("equality on %T", x)})
}

func isNilValue(v value) bool {
	switch v := v.(type) {
	case *value:
		return v == nil
	case []value:
		return v == nil
	case *Map:
		return v == nil
	case iface:
		return v.t == nil
	case *ssa.Function:
		return v == nil
	case *closure:
		return v == nil
	case *chanVal:
		return v == nil
	case uptr:
		return v.p == nil || isNilValue(v.p)
	case *nativeFunc:
		return v == nil
	case *boundFn:
		return v == nil
	case *ssa.Builtin:
		return v == nil
	}
	panic(unsupported{fmt.Sprintf("nil comparison on %T", v)})
}

func isNilConst(v ssa.Value) bool {
	c, ok := v.(*ssa.Const)
	return ok && c.Value == nil && !isBasicNonNil(c.Type())
}

func isBasicNonNil(t types.Type) bool {
	switch u := t.Underlying().(type) {
	case *types.Basic:
		return u.Kind() != types.UnsafePointer && u.Kind() != types.UntypedNil
	case *types.Struct, *types.Array:
		return true
	}
	return false
}

func (fr *frame) binop(instr *ssa.BinOp) value {
	op := instr.Op
	x, y := fr.get(instr.X), fr.get(instr.Y)
	xt := instr.X.Type()
	p := fr.p
	// nil comparisons of slices, maps, funcs
	if op == token.EQL || op == token.NEQ {
		var r *Term
		switch xt.Underlying().(type) {
		case *types.Slice, *types.Map, *types.Signature:
			if isNilConst(instr.Y) {
				r = Bool(isNilValue(x))
			} else if isNilConst(instr.X) {
				r = Bool(isNilValue(y))
			} else {
				panic(unsupported{"comparison of non-nil slices/maps/funcs"})
			}
		default:
			r = equalsTerm(x, y)
		}
		if op == token.NEQ {
			r = Not(r)
		}
		return r
	}
	// strings
	if isString(xt) {
		switch op {
		case token.ADD:
			return strConcat(x, y)
		case token.LSS:
			return strLess(x, y)
		case token.GTR:
			return strLess(y, x)
		case token.LEQ:
			return Not(strLess(y, x))
		case token.GEQ:
			return Not(strLess(x, y))
		}
		panic(unsupported{"string op " + op.String()})
	}
	a, ok1 := x.(*Term)
	b, ok2 := y.(*Term)
	if !ok1 || !ok2 {
		panic(unsupported{fmt.Sprintf("binop %s on %T,%T", op, x, y)})
	}
	if a.sort.K == SFP {
		switch op {
		case token.ADD:
			return fpBin(OFAdd, a, b)
		case token.SUB:
			return fpBin(OFSub, a, b)
		case token.MUL:
			return fpBin(OFMul, a, b)
		case token.QUO:
			return fpBin(OFDiv, a, b)
		case token.LSS:
			return fpCmp(OFLt, a, b)
		case token.LEQ:
			return fpCmp(OFLe, a, b)
		case token.GTR:
			return fpCmp(OFLt, b, a)
		case token.GEQ:
			return fpCmp(OFLe, b, a)
		}
		panic(unsupported{"float op " + op.String()})
	}
	if a.sort.K == SBool {
		switch op {
		case token.AND, token.LAND:
			return And(a, b)
		case token.OR, token.LOR:
			return Or(a, b)
		}
		panic(unsupported{"bool op " + op.String()})
	}
	signed := isSigned(xt)
	switch op {
	case token.ADD:
		return bvBin(OAdd, a, b)
	case token.SUB:
		return bvBin(OSub, a, b)
	case token.MUL:
		return bvBin(OMul, a, b)
	case token.QUO, token.REM:
		if p.decide(Eq(b, BV(b.sort.W, 0)), "division by zero") {
			panic(runtimePanic("integer divide by zero"))
		}
		if signed {
			if op == token.QUO {
				return bvBin(OSDiv, a, b)
			}
			return bvBin(OSRem, a, b)
		}
		if op == token.QUO {
			return bvBin(OUDiv, a, b)
		}
		return bvBin(OURem, a, b)
	case token.AND:
		return bvBin(OAnd, a, b)
	case token.OR:
		return bvBin(OOr, a, b)
	case token.XOR:
		return bvBin(OXor, a, b)
	case token.AND_NOT:
		return bvBin(OAnd, a, BVNot(b))
	case token.SHL, token.SHR:
		w := a.sort.W
		ysigned := isSigned(instr.Y.Type())
		if ysigned {
			if p.decide(Cmp(OSLt, b, BV(b.sort.W, 0)), "negative shift") {
				panic(runtimePanic("negative shift amount"))
			}
		}
		// bring count to operand width, saturating
		var cnt *Term
		if b.sort.W == w {
			cnt = b
		} else if b.sort.W < w {
			cnt = ZExt(b, w)
		} else {
			big := Cmp(OULe, BV(b.sort.W, uint64(w)), b)
			cnt = Ite(big, BV(w, uint64(w)), Extract(b, w-1, 0))
		}
		if op == token.SHL {
			return bvBin(OShl, a, cnt)
		}
		if signed {
			return bvBin(OAShr, a, cnt)
		}
		return bvBin(OLShr, a, cnt)
	case token.LSS:
		if signed {
			return Cmp(OSLt, a, b)
		}
		return Cmp(OULt, a, b)
	case token.LEQ:
		if signed {
			return Cmp(OSLe, a, b)
		}
		return Cmp(OULe, a, b)
	case token.GTR:
		if signed {
			return Cmp(OSLt, b, a)
		}
		return Cmp(OULt, b, a)
	case token.GEQ:
		if signed {
			return Cmp(OSLe, b, a)
		}
		return Cmp(OULe, b, a)
	}
	panic(unsupported{"binop " + op.String()})
}

func (fr *frame) unop(instr *ssa.UnOp) value {
	x := fr.get(instr.X)
	switch instr.Op {
	case token.MUL: // load
		if sr, isSym := x.(*symRef); isSym {
			return sr.load()
		}
		ptr, ok := x.(*value)
		if !ok {
			panic(unsupported{fmt.Sprintf("load through %T", x)})
		}
		if ptr == nil {
			panic(runtimePanic("invalid memory address or nil pointer dereference"))
		}
		return copyVal(*ptr)
	case token.NOT:
		return Not(x.(*Term))
	case token.SUB:
		t := x.(*Term)
		if t.sort.K == SFP {
			return fpUn(OFNeg, t)
		}
		return BVNeg(t)
	case token.XOR:
		return BVNot(x.(*Term))
	case token.ARROW:
		panic(unsupported{"channel receive"})
	}
	panic(unsupported{"unop " + instr.Op.String()})
}

// goFloatToInt implements Go/amd64 float→integer conversion.
func goFloatToInt(f *Term, dst *types.Basic) *Term {
	s, _ := basicSort(dst)
	w := s.W
	unsigned := dst.Info()&types.IsUnsigned != 0
	if f.IsConst() {
		x := f.FVal()
		switch dst.Kind() {
		case types.Int8:
			return BV(w, uint64(int8(x)))
		case types.Int16:
			return BV(w, uint64(int16(x)))
		case types.Int32:
			return BV(w, uint64(int32(x)))
		case types.Int, types.Int64:
			return BV(w, uint64(int64(x)))
		case types.Uint8:
			return BV(w, uint64(uint8(x)))
		case types.Uint16:
			return BV(w, uint64(uint16(x)))
		case types.Uint32:
			return BV(w, uint64(uint32(x)))
		case types.Uint, types.Uint64, types.Uintptr:
			return BV(w, uint64(x))
		}
	}
	f64 := FToF(f, 64)
	// cvttsd2sq: in range (-2^63, 2^63) exact truncation, else 0x8000000000000000
	cvt64 := func(g *Term) *Term {
		tr := fpUn(OFRoundRTZ, g)
		inRange := And(fpCmp(OFLe, FP64(-9223372036854775808.0), tr), fpCmp(OFLt, tr, FP64(9223372036854775808.0)))
		return Ite(inRange, FToSBV(tr, 64), BV(64, 1<<63))
	}
	cvt32 := func(g *Term) *Term {
		tr := fpUn(OFRoundRTZ, g)
		inRange := And(fpCmp(OFLe, FP64(-2147483648.0), tr), fpCmp(OFLt, tr, FP64(2147483648.0)))
		return Ite(inRange, FToSBV(tr, 32), BV(32, 1<<31))
	}
	if !unsigned {
		if w == 64 {
			return cvt64(f64)
		}
		return Extract(cvt32(f64), w-1, 0)
	}
	if w < 64 {
		return Extract(cvt64(f64), w-1, 0)
	}
	// uint64: if f < 2^63 then cvt64(f) else cvt64(f-2^63) ^ 0x8000...
	two63 := FP64(9223372036854775808.0)
	small := fpCmp(OFLt, f64, two63)
	return Ite(small, cvt64(f64), bvBin(OXor, cvt64(fpBin(OFSub, f64, two63)), BV(64, 1<<63)))
}

func (fr *frame) conv(tDst, tSrc types.Type, x value) value {
	p := fr.p
	utSrc := tSrc.Underlying()
	utDst := tDst.Underlying()
	switch us := utSrc.(type) {
	case *types.Pointer:
		if b, ok := utDst.(*types.Basic); ok && b.Kind() == types.UnsafePointer {
			return uptr{x}
		}
		if _, ok := utDst.(*types.Pointer); ok {
			return x
		}
	case *types.Slice:
		// []byte / []rune -> string
		if isString(tDst) {
			xs := x.([]value)
			eb := us.Elem().Underlying().(*types.Basic)
			if eb.Kind() == types.Byte {
				b := make([]*Term, len(xs))
				for i := range xs {
					b[i] = xs[i].(*Term)
				}
				return mkStr(b)
			}
			var b []*Term
			for i := range xs {
				b = append(b, encodeRuneSym(p, xs[i].(*Term))...)
			}
			return mkStr(b)
		}
		if _, ok := utDst.(*types.Slice); ok {
			return x
		}
	case *types.Basic:
		if us.Kind() == types.UnsafePointer {
			if up, ok := x.(uptr); ok {
				if _, ok := utDst.(*types.Pointer); ok {
					if up.p == nil {
						return (*value)(nil)
					}
					return up.p
				}
				if b, ok := utDst.(*types.Basic); ok {
					if b.Kind() == types.UnsafePointer {
						return x
					}
					if b.Kind() == types.Uintptr {
						panic(unsupported{"unsafe.Pointer -> uintptr"})
					}
				}
			}
			panic(unsupported{"conversion from unsafe.Pointer"})
		}
		if us.Info()&types.IsString != 0 {
			switch ud := utDst.(type) {
			case *types.Basic:
				if ud.Info()&types.IsString != 0 {
					return x
				}
			case *types.Slice:
				eb := ud.Elem().Underlying().(*types.Basic)
				bs := strBytes(x)
				if eb.Kind() == types.Byte {
					res := make([]value, len(bs))
					for i, b := range bs {
						res[i] = b
					}
					return res
				}
				// []rune
				res := []value{}
				if s, ok := x.(string); ok {
					for _, r := range s {
						res = append(res, BV(32, uint64(uint32(r))))
					}
					return res
				}
				for i := 0; i < len(bs); {
					r, w := decodeRuneSym(p, bs[i:])
					res = append(res, r)
					i += w
				}
				return res
			}
			break
		}
		xt, ok := x.(*Term)
		if !ok {
			break
		}
		ud, ok := utDst.(*types.Basic)
		if !ok {
			break
		}
		// integer -> string
		if ud.Info()&types.IsString != 0 && us.Info()&types.IsInteger != 0 {
			var r *Term
			if xt.sort.W > 32 {
				// values outside int32 are invalid runes
				var fits *Term
				if isSigned(tSrc) {
					fits = Eq(SExt(Extract(xt, 31, 0), xt.sort.W), xt)
				} else {
					fits = Cmp(OULt, xt, BV(xt.sort.W, 1<<31))
				}
				if p.decide(fits, "rune fits") {
					r = Extract(xt, 31, 0)
				} else {
					r = BV(32, 0xFFFD)
				}
			} else if isSigned(tSrc) {
				r = SExt(xt, 32)
			} else {
				r = ZExt(xt, 32)
			}
			// negative -> invalid (handled in encodeRuneSym through > 0x10FFFF unsigned compare)
			return mkStr(encodeRuneSym(p, r))
		}
		ds, ok := basicSort(ud)
		if !ok {
			break
		}
		switch {
		case xt.sort.K == SBV && ds.K == SBV:
			if isSigned(tSrc) {
				return SExt(xt, ds.W)
			}
			return ZExt(xt, ds.W)
		case xt.sort.K == SBV && ds.K == SFP:
			if isSigned(tSrc) {
				return SBVToF(xt, ds.W)
			}
			return UBVToF(xt, ds.W)
		case xt.sort.K == SFP && ds.K == SFP:
			return FToF(xt, ds.W)
		case xt.sort.K == SFP && ds.K == SBV:
			return goFloatToInt(xt, ud)
		case xt.sort.K == SBool && ds.K == SBool:
			return xt
		}
	case *types.Signature, *types.Map, *types.Struct, *types.Array, *types.Chan:
		return x
	}
	panic(unsupported{fmt.Sprintf("conversion %s -> %s (%T)", tSrc, tDst, x)})
}

func (fr *frame) typeAssert(instr *ssa.TypeAssert, itf iface) value {
	var v value
	err := ""
	if itf.t == nil {
		err = fmt.Sprintf("interface conversion: interface is nil, not %s", instr.AssertedType)
	} else if idst, ok := instr.AssertedType.Underlying().(*types.Interface); ok {
		v = itf
		if !fr.p.eng.implements(itf.t, idst) {
			err = fmt.Sprintf("interface conversion: %v is not %v: missing method", itf.t, instr.AssertedType)
		}
	} else if types.Identical(itf.t, instr.AssertedType) {
		v = itf.v
	} else {
		err = fmt.Sprintf("interface conversion: interface is %s, not %s", itf.t, instr.AssertedType)
	}
	if err != "" {
		if !instr.CommaOk {
			panic(targetPanic{msg: err})
		}
		return tuple{zero(instr.AssertedType), termFalse}
	}
	if instr.CommaOk {
		return tuple{v, termTrue}
	}
	return v
}

func (e *Engine) implements(t types.Type, it *types.Interface) bool {
	if _, ok := t.(rtypeMarker); ok {
		return true
	}
	m, _ := types.MissingMethod(t, it, true)
	return m == nil
}

type rtypeMarker interface{ isRtypeMarker() }

// sliceOp implements x[lo:hi:max].
func (fr *frame) sliceOp(instr *ssa.Slice) value {
	p := fr.p
	x := fr.get(instr.X)
	var lo, hi, max int64
	getIdx := func(v ssa.Value, def int64, limit int64, what string) int64 {
		if v == nil {
			return def
		}
		t := fr.get(v).(*Term)
		if t.IsConst() {
			return t.SVal()
		}
		// in-range?
		inr := And(Cmp(OSLe, BV(t.sort.W, 0), t), Cmp(OSLe, t, BV(t.sort.W, uint64(limit))))
		if !p.decide(inr, "slice bound in range") {
			panic(runtimePanic("slice bounds out of range"))
		}
		return p.concretizeInt(t, 0, limit, what)
	}
	switch xv := x.(type) {
	case string, *SymStr:
		n := int64(strLen(xv))
		lo = getIdx(instr.Low, 0, n, "string slice low")
		hi = getIdx(instr.High, n, n, "string slice high")
		if lo < 0 || hi > n || lo > hi {
			panic(runtimePanic(fmt.Sprintf("slice bounds out of range [%d:%d] with length %d", lo, hi, n)))
		}
		if s, ok := xv.(string); ok {
			return s[lo:hi]
		}
		ss := xv.(*SymStr)
		if ss.taint != "" {
			return &SymStr{b: make([]*Term, hi-lo), taint: ss.taint}
		}
		return mkStr(ss.b[lo:hi])
	case []value:
		c := int64(cap(xv))
		lo = getIdx(instr.Low, 0, c, "slice low")
		hi = getIdx(instr.High, int64(len(xv)), c, "slice high")
		max = getIdx(instr.Max, c, c, "slice max")
		if lo < 0 || hi > max || max > c || lo > hi {
			panic(runtimePanic(fmt.Sprintf("slice bounds out of range [%d:%d:%d] with capacity %d", lo, hi, max, c)))
		}
		if xv == nil {
			return []value(nil)
		}
		return xv[lo:hi:max]
	case *value: // *array
		if xv == nil {
			panic(runtimePanic("nil pointer dereference (slice of nil *array)"))
		}
		a := (*xv).(array)
		c := int64(len(a))
		lo = getIdx(instr.Low, 0, c, "slice low")
		hi = getIdx(instr.High, c, c, "slice high")
		max = getIdx(instr.Max, c, c, "slice max")
		if lo < 0 || hi > max || max > c || lo > hi {
			panic(runtimePanic("slice bounds out of range"))
		}
		return []value(a)[lo:hi:max]
	}
	panic(unsupported{fmt.Sprintf("slice of %T", x)})
}

// indexCheck returns a concrete index in [0,n) or panics like Go.
func (p *Path) indexCheck(idx *Term, signed bool, n int, what string) int {
	if idx.IsConst() {
		var i int64
		if signed {
			i = idx.SVal()
		} else {
			i = int64(idx.c)
			if idx.c > math.MaxInt64 {
				i = -1
			}
		}
		if i < 0 || i >= int64(n) {
			panic(runtimePanic(fmt.Sprintf("index out of range [%d] with length %d", i, n)))
		}
		return int(i)
	}
	inr := inRangeTerm(idx, n)
	if !p.decide(inr, what+" in range") {
		panic(runtimePanic(fmt.Sprintf("index out of range [symbolic] with length %d", n)))
	}
	return int(p.concretizeInt(idx, 0, int64(n-1), what))
}
