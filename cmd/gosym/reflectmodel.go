package main

// Model of package reflect. gosym values carry go/types types, so reflect.Type is
// modelled by types.Type (identity = types.Identical) and reflect.Value by a typed
// reference to a heap location or an rvalue, with the read-only (unexported field)
// and addressable flags that the real package tracks.

import (
	"fmt"
	"go/token"
	"go/types"
	"strings"

	"golang.org/x/tools/go/ssa"
)

type rval struct {
	t    types.Type // nil: the zero (invalid) Value
	ref  *value     // location, when the value was reached through a pointer / is addressable
	v    value      // rvalue when ref == nil
	ro   bool       // obtained through an unexported struct field
	addr bool       // CanAddr
}

type rtype struct{ t types.Type }

func (rtype) isRtypeMarker() {}

type boundFn struct {
	fn   value
	recv value
	sig  *types.Signature
}

type rmapIter struct {
	m   *Map
	kt  types.Type
	et  types.Type
	it  *mapIter
	cur *mapEntry
	ro  bool
}

const (
	kInvalid = iota
	kBool
	kInt
	kInt8
	kInt16
	kInt32
	kInt64
	kUint
	kUint8
	kUint16
	kUint32
	kUint64
	kUintptr
	kFloat32
	kFloat64
	kComplex64
	kComplex128
	kArray
	kChan
	kFunc
	kInterface
	kMap
	kPointer
	kSlice
	kString
	kStruct
	kUnsafePointer
)

var kindNames = []string{"invalid", "bool", "int", "int8", "int16", "int32", "int64", "uint", "uint8", "uint16", "uint32", "uint64", "uintptr", "float32", "float64", "complex64", "complex128", "array", "chan", "func", "interface", "map", "ptr", "slice", "string", "struct", "unsafe.Pointer"}

func typeKind(t types.Type) int {
	if t == nil {
		return kInvalid
	}
	switch u := t.Underlying().(type) {
	case *types.Basic:
		switch u.Kind() {
		case types.Bool, types.UntypedBool:
			return kBool
		case types.Int, types.UntypedInt:
			return kInt
		case types.Int8:
			return kInt8
		case types.Int16:
			return kInt16
		case types.Int32, types.UntypedRune:
			return kInt32
		case types.Int64:
			return kInt64
		case types.Uint:
			return kUint
		case types.Uint8:
			return kUint8
		case types.Uint16:
			return kUint16
		case types.Uint32:
			return kUint32
		case types.Uint64:
			return kUint64
		case types.Uintptr:
			return kUintptr
		case types.Float32:
			return kFloat32
		case types.Float64, types.UntypedFloat:
			return kFloat64
		case types.Complex64:
			return kComplex64
		case types.Complex128:
			return kComplex128
		case types.String, types.UntypedString:
			return kString
		case types.UnsafePointer:
			return kUnsafePointer
		}
	case *types.Array:
		return kArray
	case *types.Chan:
		return kChan
	case *types.Signature:
		return kFunc
	case *types.Interface:
		return kInterface
	case *types.Map:
		return kMap
	case *types.Pointer:
		return kPointer
	case *types.Slice:
		return kSlice
	case *types.Struct:
		return kStruct
	}
	return kInvalid
}

func isIfaceType(t types.Type) bool {
	_, ok := t.Underlying().(*types.Interface)
	return ok
}

func rpanic(format string, a ...interface{}) targetPanic {
	return targetPanic{msg: "reflect: " + fmt.Sprintf(format, a...)}
}

func (r *rval) get() value {
	if r.ref != nil {
		return copyVal(*r.ref)
	}
	return r.v
}

func (r *rval) kind() int { return typeKind(r.t) }

func (r *rval) mustBe(what string, kinds ...int) {
	k := r.kind()
	for _, x := range kinds {
		if k == x {
			return
		}
	}
	if k == kInvalid {
		panic(rpanic("call of reflect.Value.%s on zero Value", what))
	}
	panic(rpanic("call of reflect.Value.%s on %s Value", what, kindNames[k]))
}

func (e *Engine) rtypeIface(t types.Type) value {
	if t == nil {
		return iface{}
	}
	return iface{t: e.rtypeT(), v: rtype{t}}
}

func (e *Engine) rtypeT() types.Type {
	e.mu.Lock()
	defer e.mu.Unlock()
	if e.rtypeType == nil {
		pkg := e.pkgs["reflect"]
		if pkg == nil {
			panic(unsupported{"package reflect not loaded"})
		}
		e.rtypeType = types.NewPointer(pkg.Type("rtype").Type())
	}
	return e.rtypeType
}

func typeOfArg(v value) types.Type {
	it, ok := v.(iface)
	if !ok {
		panic(unsupported{fmt.Sprintf("reflect.Type argument %T", v)})
	}
	if it.t == nil {
		panic(runtimePanic("invalid memory address or nil pointer dereference (nil reflect.Type)"))
	}
	rt, ok := it.v.(rtype)
	if !ok {
		panic(unsupported{fmt.Sprintf("reflect.Type with dynamic value %T", it.v)})
	}
	return rt.t
}

// wrapFor converts the content of x for storage into a location of type dst.
func wrapFor(dst types.Type, x *rval) value {
	if isIfaceType(dst) && !isIfaceType(x.t) {
		return iface{t: x.t, v: x.get()}
	}
	return x.get()
}

func typeString(t types.Type) string {
	s := types.TypeString(t, pkgNameQualifier)
	s = strings.ReplaceAll(s, "interface{}", "interface {}")
	// the alias "any" prints as "interface {}" in package reflect
	var sb strings.Builder
	isId := func(c byte) bool { return c == '_' || c >= '0' && c <= '9' || c >= 'a' && c <= 'z' || c >= 'A' && c <= 'Z' || c >= 0x80 }
	for i := 0; i < len(s); {
		if strings.HasPrefix(s[i:], "any") && (i == 0 || !isId(s[i-1]) && s[i-1] != '.') && (i+3 == len(s) || !isId(s[i+3])) {
			sb.WriteString("interface {}")
			i += 3
			continue
		}
		sb.WriteByte(s[i])
		i++
	}
	return sb.String()
}

func (e *Engine) structFieldValue(st *types.Struct, i int, index []int) value {
	f := st.Field(i)
	pkgPath := ""
	if !f.Exported() && f.Pkg() != nil {
		pkgPath = f.Pkg().Path()
	}
	idx := make([]value, len(index))
	for j, x := range index {
		idx[j] = BV(64, uint64(x))
	}
	return structure{f.Name(), pkgPath, e.rtypeIface(f.Type()), st.Tag(i), BV(64, 0), idx, Bool(f.Embedded())}
}

func (p *Path) rvalIsNil(r *rval, what string) bool {
	r.mustBe(what, kChan, kFunc, kInterface, kMap, kPointer, kSlice, kUnsafePointer)
	v := r.get()
	if bf, ok := v.(*boundFn); ok {
		return bf == nil
	}
	return isNilValue(v)
}

// isZeroTerm returns the term for "v is the zero value of its type".
func (p *Path) isZeroTerm(v value) *Term {
	switch x := v.(type) {
	case *Term:
		switch x.sort.K {
		case SBool:
			return Not(x)
		case SBV:
			return Eq(x, BV(x.sort.W, 0))
		case SFP:
			// IsZero is true for +0 only
			return Eq(x, fpConst(x.sort.W, 0))
		}
	case string:
		return Bool(x == "")
	case *SymStr:
		return Bool(len(x.b) == 0)
	case structure:
		r := termTrue
		for _, e := range x {
			r = And(r, p.isZeroTerm(e))
		}
		return r
	case array:
		r := termTrue
		for _, e := range x {
			r = And(r, p.isZeroTerm(e))
		}
		return r
	case *rval:
		return Bool(x.t == nil)
	}
	return Bool(isNilValue(v))
}

func (p *Path) fieldByName(t types.Type, name string) (index []int, ft types.Type, ok bool) {
	obj, idx, _ := types.LookupFieldOrMethod(t, true, nil, name)
	if obj == nil {
		// unexported names need the package: search directly
		if st, isSt := t.Underlying().(*types.Struct); isSt {
			for i := 0; i < st.NumFields(); i++ {
				if st.Field(i).Name() == name {
					return []int{i}, st.Field(i).Type(), true
				}
			}
		}
		return nil, nil, false
	}
	f, isVar := obj.(*types.Var)
	if !isVar || !f.IsField() {
		return nil, nil, false
	}
	return idx, f.Type(), true
}

func (p *Path) rField(r *rval, i int) *rval {
	r.mustBe("Field", kStruct)
	st := r.t.Underlying().(*types.Struct)
	if i < 0 || i >= st.NumFields() {
		panic(rpanic("Field index out of range"))
	}
	f := st.Field(i)
	ro := r.ro || !f.Exported()
	if r.ref != nil {
		s := (*r.ref).(structure)
		return &rval{t: f.Type(), ref: &s[i], ro: ro, addr: r.addr}
	}
	return &rval{t: f.Type(), v: r.v.(structure)[i], ro: ro}
}

func (p *Path) rElem(r *rval) *rval {
	switch r.kind() {
	case kPointer:
		ptr := r.get().(*value)
		if ptr == nil {
			return &rval{}
		}
		return &rval{t: deref(r.t), ref: ptr, ro: r.ro, addr: true}
	case kInterface:
		it := r.get().(iface)
		if it.t == nil {
			return &rval{}
		}
		return &rval{t: it.t, v: it.v, ro: r.ro}
	}
	r.mustBe("Elem", kInterface, kPointer)
	return nil
}

func (p *Path) rLen(r *rval) int {
	switch x := r.get().(type) {
	case []value:
		return len(x)
	case array:
		return len(x)
	case *Map:
		return x.Len()
	case string, *SymStr:
		return strLen(x)
	case *chanVal:
		return 0
	}
	r.mustBe("Len", kArray, kChan, kMap, kSlice, kString)
	return 0
}

func (p *Path) methodByName(r *rval, name string) *rval {
	if r.t == nil {
		panic(rpanic("call of reflect.Value.MethodByName on zero Value"))
	}
	if !token.IsExported(name) {
		return &rval{}
	}
	if r.kind() == kInterface {
		it := r.get().(iface)
		if it.t == nil {
			return &rval{}
		}
		r = &rval{t: it.t, v: it.v, ro: r.ro}
	}
	ms := p.eng.prog.MethodSets.MethodSet(r.t)
	for i := 0; i < ms.Len(); i++ {
		sel := ms.At(i)
		if sel.Obj().Name() != name {
			continue
		}
		fn := p.eng.prog.MethodValue(sel)
		if fn == nil {
			return &rval{}
		}
		sig := sel.Type().(*types.Signature)
		return &rval{t: sig, v: &boundFn{fn: fn, recv: r.get(), sig: sig}, ro: r.ro}
	}
	return &rval{}
}

func (p *Path) rCall(fr *frame, r *rval, args []value) value {
	r.mustBe("Call", kFunc)
	var fn value
	var full []value
	var sig *types.Signature
	switch f := r.get().(type) {
	case *boundFn:
		fn = f.fn
		full = append(full, f.recv)
		sig = f.sig
	default:
		fn = f
		sig = r.t.Underlying().(*types.Signature)
	}
	for i, a := range args {
		av := a.(*rval)
		if av.t == nil {
			panic(rpanic("Call using zero Value argument"))
		}
		var pt types.Type
		if sig.Variadic() && i >= sig.Params().Len()-1 {
			pt = sig.Params().At(sig.Params().Len() - 1).Type().(*types.Slice).Elem()
			panic(unsupported{"reflect.Value.Call of variadic function"})
		} else {
			pt = sig.Params().At(i).Type()
		}
		full = append(full, wrapFor(pt, av))
	}
	res := p.call(fr, 0, fn, full)
	var out []value
	switch sig.Results().Len() {
	case 0:
	case 1:
		out = append(out, &rval{t: sig.Results().At(0).Type(), v: res})
	default:
		tup := res.(tuple)
		for i := range tup {
			out = append(out, &rval{t: sig.Results().At(i).Type(), v: tup[i]})
		}
	}
	if out == nil {
		out = []value{}
	}
	return out
}

func (p *Path) rSet(r *rval, x *rval, what string) {
	if !r.addr || r.ref == nil {
		panic(rpanic("reflect.Value.%s using unaddressable value", what))
	}
	if r.ro {
		panic(rpanic("reflect.Value.%s using value obtained using unexported field", what))
	}
	if x.t == nil {
		panic(rpanic("call of reflect.Value.%s with zero Value", what))
	}
	if x.ro {
		panic(rpanic("reflect.Value.%s using value obtained using unexported field", what))
	}
	if !types.AssignableTo(x.t, r.t) {
		panic(rpanic("reflect.Set: value of type %s is not assignable to type %s", typeString(x.t), typeString(r.t)))
	}
	store(r.ref, wrapFor(r.t, x))
}

func (p *Path) rInterface(r *rval) value {
	if r.t == nil {
		panic(rpanic("call of reflect.Value.Interface on zero Value"))
	}
	if r.ro {
		panic(rpanic("reflect.Value.Interface: cannot return value obtained from unexported field or method"))
	}
	v := r.get()
	if isIfaceType(r.t) {
		return v
	}
	return iface{t: r.t, v: v}
}

func newRmapIter(r *rval, rev bool) *rmapIter {
	mt := r.t.Underlying().(*types.Map)
	m, _ := r.get().(*Map)
	return &rmapIter{m: m, kt: mt.Key(), et: mt.Elem(), it: m.iterOrd(rev), ro: r.ro}
}

func rv(args []value, i int) *rval {
	r, ok := args[i].(*rval)
	if !ok {
		panic(unsupported{fmt.Sprintf("reflect.Value argument is %T", args[i])})
	}
	return r
}

func addReflect(e *Engine, m map[string]intrinsic) {
	V := func(name string, f func(p *Path, fr *frame, r *rval, args []value) value) {
		m["(reflect.Value)."+name] = func(p *Path, fr *frame, args []value) value {
			return f(p, fr, rv(args, 0), args[1:])
		}
	}
	m["reflect.ValueOf"] = func(p *Path, fr *frame, args []value) value {
		it := args[0].(iface)
		if it.t == nil {
			return &rval{}
		}
		return &rval{t: it.t, v: it.v}
	}
	m["reflect.TypeOf"] = func(p *Path, fr *frame, args []value) value {
		it := args[0].(iface)
		return e.rtypeIface(it.t)
	}
	m["reflect.New"] = func(p *Path, fr *frame, args []value) value {
		t := typeOfArg(args[0])
		cell := zero(t)
		return &rval{t: types.NewPointer(t), v: &cell}
	}
	m["reflect.Zero"] = func(p *Path, fr *frame, args []value) value {
		t := typeOfArg(args[0])
		return &rval{t: t, v: zero(t)}
	}
	m["reflect.Indirect"] = func(p *Path, fr *frame, args []value) value {
		r := rv(args, 0)
		if r.kind() != kPointer {
			return r
		}
		return p.rElem(r)
	}
	m["reflect.MakeSlice"] = func(p *Path, fr *frame, args []value) value {
		t := typeOfArg(args[0])
		st, ok := t.Underlying().(*types.Slice)
		if !ok {
			panic(rpanic("MakeSlice of non-slice type"))
		}
		l, c := mustInt(args[1], "MakeSlice len"), mustInt(args[2], "MakeSlice cap")
		if l < 0 || c < l {
			panic(rpanic("MakeSlice: bad len/cap"))
		}
		s := make([]value, c)
		for i := range s {
			s[i] = zero(st.Elem())
		}
		return &rval{t: t, v: s[:l]}
	}
	mkMap := func(p *Path, fr *frame, args []value) value {
		t := typeOfArg(args[0])
		mt, ok := t.Underlying().(*types.Map)
		if !ok {
			panic(rpanic("MakeMap of non-map type"))
		}
		return &rval{t: t, v: newMap(mt.Key())}
	}
	m["reflect.MakeMap"] = mkMap
	m["reflect.MakeMapWithSize"] = mkMap
	m["reflect.PtrTo"] = func(p *Path, fr *frame, args []value) value {
		return e.rtypeIface(types.NewPointer(typeOfArg(args[0])))
	}
	m["reflect.PointerTo"] = m["reflect.PtrTo"]
	m["reflect.SliceOf"] = func(p *Path, fr *frame, args []value) value {
		return e.rtypeIface(types.NewSlice(typeOfArg(args[0])))
	}
	m["reflect.MapOf"] = func(p *Path, fr *frame, args []value) value {
		return e.rtypeIface(types.NewMap(typeOfArg(args[0]), typeOfArg(args[1])))
	}
	m["reflect.Append"] = func(p *Path, fr *frame, args []value) value {
		s := rv(args, 0)
		s.mustBe("Append", kSlice)
		et := s.t.Underlying().(*types.Slice).Elem()
		sl, _ := s.get().([]value)
		for _, x := range args[1].([]value) {
			xv := x.(*rval)
			if xv.t == nil {
				panic(rpanic("reflect.Append: zero Value"))
			}
			if !types.AssignableTo(xv.t, et) {
				panic(rpanic("reflect.Set: value of type %s is not assignable to type %s", typeString(xv.t), typeString(et)))
			}
			sl = append(sl, copyVal(wrapFor(et, xv)))
		}
		return &rval{t: s.t, v: sl}
	}
	m["reflect.AppendSlice"] = func(p *Path, fr *frame, args []value) value {
		s, t := rv(args, 0), rv(args, 1)
		sl, _ := s.get().([]value)
		tl, _ := t.get().([]value)
		for _, x := range tl {
			sl = append(sl, copyVal(x))
		}
		return &rval{t: s.t, v: sl}
	}
	m["reflect.Copy"] = func(p *Path, fr *frame, args []value) value {
		d, s := rv(args, 0), rv(args, 1)
		dl, _ := d.get().([]value)
		sl, _ := s.get().([]value)
		n := copy(dl, sl)
		return BV(64, uint64(n))
	}
	m["reflect.DeepEqual"] = func(p *Path, fr *frame, args []value) value {
		return p.deepEqualTerm(args[0], args[1])
	}
	m["(reflect.Kind).String"] = func(p *Path, fr *frame, args []value) value {
		k := mustInt(args[0], "Kind")
		if k >= 0 && int(k) < len(kindNames) {
			return kindNames[k]
		}
		return fmt.Sprintf("kind%d", k)
	}
	m["(reflect.ChanDir).String"] = func(p *Path, fr *frame, args []value) value { return "chan" }

	// ---- Value methods
	V("Kind", func(p *Path, fr *frame, r *rval, a []value) value { return BV(64, uint64(r.kind())) })
	V("IsValid", func(p *Path, fr *frame, r *rval, a []value) value { return Bool(r.t != nil) })
	V("Type", func(p *Path, fr *frame, r *rval, a []value) value {
		if r.t == nil {
			panic(rpanic("call of reflect.Value.Type on zero Value"))
		}
		return e.rtypeIface(r.t)
	})
	V("Elem", func(p *Path, fr *frame, r *rval, a []value) value { return p.rElem(r) })
	V("IsNil", func(p *Path, fr *frame, r *rval, a []value) value { return Bool(p.rvalIsNil(r, "IsNil")) })
	V("IsZero", func(p *Path, fr *frame, r *rval, a []value) value {
		if r.t == nil {
			panic(rpanic("call of reflect.Value.IsZero on zero Value"))
		}
		return p.isZeroTerm(r.get())
	})
	V("CanSet", func(p *Path, fr *frame, r *rval, a []value) value { return Bool(r.addr && !r.ro) })
	V("CanAddr", func(p *Path, fr *frame, r *rval, a []value) value { return Bool(r.addr) })
	V("CanInterface", func(p *Path, fr *frame, r *rval, a []value) value {
		if r.t == nil {
			panic(rpanic("call of reflect.Value.CanInterface on zero Value"))
		}
		return Bool(!r.ro)
	})
	V("Interface", func(p *Path, fr *frame, r *rval, a []value) value { return p.rInterface(r) })
	V("Addr", func(p *Path, fr *frame, r *rval, a []value) value {
		if !r.addr || r.ref == nil {
			panic(rpanic("reflect.Value.Addr of unaddressable value"))
		}
		return &rval{t: types.NewPointer(r.t), v: r.ref, ro: r.ro}
	})
	V("NumField", func(p *Path, fr *frame, r *rval, a []value) value {
		r.mustBe("NumField", kStruct)
		return BV(64, uint64(r.t.Underlying().(*types.Struct).NumFields()))
	})
	V("Field", func(p *Path, fr *frame, r *rval, a []value) value {
		return p.rField(r, int(mustInt(a[0], "Field index")))
	})
	V("FieldByName", func(p *Path, fr *frame, r *rval, a []value) value {
		r.mustBe("FieldByName", kStruct)
		idx, _, ok := p.fieldByName(r.t, cstr(a[0]))
		if !ok {
			return &rval{}
		}
		cur := r
		for _, i := range idx {
			if cur.kind() == kPointer {
				cur = p.rElem(cur)
			}
			cur = p.rField(cur, i)
		}
		return cur
	})
	V("FieldByIndex", func(p *Path, fr *frame, r *rval, a []value) value {
		cur := r
		for _, iv := range a[0].([]value) {
			if cur.kind() == kPointer {
				cur = p.rElem(cur)
			}
			cur = p.rField(cur, int(mustInt(iv, "FieldByIndex")))
		}
		return cur
	})
	V("Len", func(p *Path, fr *frame, r *rval, a []value) value { return BV(64, uint64(p.rLen(r))) })
	V("Cap", func(p *Path, fr *frame, r *rval, a []value) value {
		switch x := r.get().(type) {
		case []value:
			return BV(64, uint64(cap(x)))
		case array:
			return BV(64, uint64(len(x)))
		}
		r.mustBe("Cap", kArray, kSlice)
		return BV(64, 0)
	})
	V("Index", func(p *Path, fr *frame, r *rval, a []value) value {
		idx := a[0].(*Term)
		switch r.kind() {
		case kSlice:
			s, _ := r.get().([]value)
			i := p.indexCheck(idx, true, len(s), "reflect slice index")
			return &rval{t: r.t.Underlying().(*types.Slice).Elem(), ref: &s[i], ro: r.ro, addr: true}
		case kArray:
			et := r.t.Underlying().(*types.Array).Elem()
			if r.ref != nil {
				arr := (*r.ref).(array)
				i := p.indexCheck(idx, true, len(arr), "reflect array index")
				return &rval{t: et, ref: &arr[i], ro: r.ro, addr: r.addr}
			}
			arr := r.v.(array)
			i := p.indexCheck(idx, true, len(arr), "reflect array index")
			return &rval{t: et, v: arr[i], ro: r.ro}
		case kString:
			bs := strBytes(r.get())
			i := p.indexCheck(idx, true, len(bs), "reflect string index")
			return &rval{t: types.Typ[types.Uint8], v: bs[i], ro: r.ro}
		}
		r.mustBe("Index", kArray, kSlice, kString)
		return nil
	})
	V("Slice", func(p *Path, fr *frame, r *rval, a []value) value {
		i, j := int(mustInt(a[0], "Slice i")), int(mustInt(a[1], "Slice j"))
		switch x := r.get().(type) {
		case []value:
			if i < 0 || j < i || j > cap(x) {
				panic(rpanic("reflect.Value.Slice: slice index out of bounds"))
			}
			return &rval{t: r.t, v: x[i:j], ro: r.ro}
		case string, *SymStr:
			bs := strBytes(x)
			if i < 0 || j < i || j > len(bs) {
				panic(rpanic("reflect.Value.Slice: string slice index out of bounds"))
			}
			return &rval{t: r.t, v: mkStr(bs[i:j]), ro: r.ro}
		}
		panic(unsupported{"reflect.Value.Slice on this kind"})
	})
	V("Slice3", func(p *Path, fr *frame, r *rval, a []value) value {
		i, j, k := int(mustInt(a[0], "Slice3 i")), int(mustInt(a[1], "Slice3 j")), int(mustInt(a[2], "Slice3 k"))
		x, ok := r.get().([]value)
		if !ok {
			panic(unsupported{"reflect.Value.Slice3 on this kind"})
		}
		if i < 0 || j < i || k < j || k > cap(x) {
			panic(rpanic("reflect.Value.Slice3: slice index out of bounds"))
		}
		return &rval{t: r.t, v: x[i:j:k], ro: r.ro}
	})
	V("Set", func(p *Path, fr *frame, r *rval, a []value) value { p.rSet(r, rv(a, 0), "Set"); return nil })
	setScalar := func(name string, kinds []int, conv func(p *Path, r *rval, x value) value) {
		V(name, func(p *Path, fr *frame, r *rval, a []value) value {
			r.mustBe(name, kinds...)
			if !r.addr || r.ref == nil {
				panic(rpanic("reflect.Value.%s using unaddressable value", name))
			}
			if r.ro {
				panic(rpanic("reflect.Value.%s using value obtained using unexported field", name))
			}
			store(r.ref, conv(p, r, a[0]))
			return nil
		})
	}
	intKinds := []int{kInt, kInt8, kInt16, kInt32, kInt64}
	uintKinds := []int{kUint, kUint8, kUint16, kUint32, kUint64, kUintptr}
	setScalar("SetInt", intKinds, func(p *Path, r *rval, x value) value {
		s, _ := basicSort(r.t.Underlying().(*types.Basic))
		return Extract(x.(*Term), s.W-1, 0)
	})
	setScalar("SetUint", uintKinds, func(p *Path, r *rval, x value) value {
		s, _ := basicSort(r.t.Underlying().(*types.Basic))
		return Extract(x.(*Term), s.W-1, 0)
	})
	setScalar("SetFloat", []int{kFloat32, kFloat64}, func(p *Path, r *rval, x value) value {
		s, _ := basicSort(r.t.Underlying().(*types.Basic))
		return FToF(x.(*Term), s.W)
	})
	setScalar("SetBool", []int{kBool}, func(p *Path, r *rval, x value) value { return x })
	setScalar("SetString", []int{kString}, func(p *Path, r *rval, x value) value { return x })
	setScalar("SetBytes", []int{kSlice}, func(p *Path, r *rval, x value) value { return x })
	V("SetLen", func(p *Path, fr *frame, r *rval, a []value) value {
		r.mustBe("SetLen", kSlice)
		s := (*r.ref).([]value)
		n := int(mustInt(a[0], "SetLen"))
		if n < 0 || n > cap(s) {
			panic(rpanic("reflect.Value.SetLen: slice length out of range"))
		}
		*r.ref = s[:n]
		return nil
	})
	V("Int", func(p *Path, fr *frame, r *rval, a []value) value {
		r.mustBe("Int", intKinds...)
		return SExt(r.get().(*Term), 64)
	})
	V("Uint", func(p *Path, fr *frame, r *rval, a []value) value {
		r.mustBe("Uint", uintKinds...)
		return ZExt(r.get().(*Term), 64)
	})
	V("Float", func(p *Path, fr *frame, r *rval, a []value) value {
		r.mustBe("Float", kFloat32, kFloat64)
		return FToF(r.get().(*Term), 64)
	})
	V("Bool", func(p *Path, fr *frame, r *rval, a []value) value {
		r.mustBe("Bool", kBool)
		return r.get()
	})
	V("String", func(p *Path, fr *frame, r *rval, a []value) value {
		if r.t == nil {
			return "<invalid Value>"
		}
		if r.kind() == kString {
			return r.get()
		}
		return "<" + typeString(r.t) + " Value>"
	})
	V("Bytes", func(p *Path, fr *frame, r *rval, a []value) value {
		r.mustBe("Bytes", kSlice, kArray)
		return r.get()
	})
	V("Pointer", func(p *Path, fr *frame, r *rval, a []value) value {
		panic(unsupported{"reflect.Value.Pointer"})
	})
	V("UnsafePointer", func(p *Path, fr *frame, r *rval, a []value) value {
		return uptr{r.get()}
	})
	V("Convert", func(p *Path, fr *frame, r *rval, a []value) value {
		t := typeOfArg(a[0])
		if r.t == nil {
			panic(rpanic("call of reflect.Value.Convert on zero Value"))
		}
		if !types.ConvertibleTo(r.t, t) {
			panic(rpanic("reflect.Value.Convert: value of type %s cannot be converted to type %s", typeString(r.t), typeString(t)))
		}
		if isIfaceType(t) {
			if isIfaceType(r.t) {
				return &rval{t: t, v: r.get(), ro: r.ro}
			}
			return &rval{t: t, v: iface{t: r.t, v: r.get()}, ro: r.ro}
		}
		if types.Identical(r.t.Underlying(), t.Underlying()) {
			return &rval{t: t, v: r.get(), ro: r.ro}
		}
		return &rval{t: t, v: fr.conv(t, r.t, r.get()), ro: r.ro}
	})
	V("MapKeys", func(p *Path, fr *frame, r *rval, a []value) value {
		r.mustBe("MapKeys", kMap)
		mt := r.t.Underlying().(*types.Map)
		mp, _ := r.get().(*Map)
		out := []value{}
		it := mp.iterOrd(p.revMaps)
		for {
			tup := it.next(p)
			if tup[0].(*Term).c == 0 {
				break
			}
			out = append(out, &rval{t: mt.Key(), v: tup[1], ro: r.ro})
		}
		return out
	})
	V("MapIndex", func(p *Path, fr *frame, r *rval, a []value) value {
		r.mustBe("MapIndex", kMap)
		mt := r.t.Underlying().(*types.Map)
		mp, _ := r.get().(*Map)
		k := rv(a, 0)
		if k.t == nil {
			panic(rpanic("call of reflect.Value.MapIndex with zero key"))
		}
		v, ok := mp.lookup(p, wrapFor(mt.Key(), k))
		if !ok {
			return &rval{}
		}
		return &rval{t: mt.Elem(), v: copyVal(v), ro: r.ro || k.ro}
	})
	V("SetMapIndex", func(p *Path, fr *frame, r *rval, a []value) value {
		r.mustBe("SetMapIndex", kMap)
		if r.ro {
			panic(rpanic("reflect.Value.SetMapIndex using value obtained using unexported field"))
		}
		mt := r.t.Underlying().(*types.Map)
		mp, _ := r.get().(*Map)
		k, v := rv(a, 0), rv(a, 1)
		if k.ro || v.ro {
			panic(rpanic("reflect.Value.SetMapIndex using value obtained using unexported field"))
		}
		kv := wrapFor(mt.Key(), k)
		if v.t == nil {
			mp.delete(p, kv)
			return nil
		}
		if mp == nil {
			panic(targetPanic{msg: "assignment to entry in nil map"})
		}
		if !types.AssignableTo(v.t, mt.Elem()) {
			panic(rpanic("reflect.Value.SetMapIndex: value of type %s is not assignable to type %s", typeString(v.t), typeString(mt.Elem())))
		}
		mp.insert(p, copyVal(kv), copyVal(wrapFor(mt.Elem(), v)))
		return nil
	})
	V("MapRange", func(p *Path, fr *frame, r *rval, a []value) value {
		r.mustBe("MapRange", kMap)
		cell := value(newRmapIter(r, p.revMaps))
		return &cell
	})
	iterOf := func(v value) *rmapIter {
		ptr := v.(*value)
		return (*ptr).(*rmapIter)
	}
	m["(*reflect.MapIter).Next"] = func(p *Path, fr *frame, args []value) value {
		it := iterOf(args[0])
		for it.it.i < len(it.it.snap) {
			en := it.it.snap[it.it.i]
			it.it.i++
			if !en.deleted {
				it.cur = en
				return termTrue
			}
		}
		it.cur = nil
		return termFalse
	}
	m["(*reflect.MapIter).Key"] = func(p *Path, fr *frame, args []value) value {
		it := iterOf(args[0])
		if it.cur == nil {
			panic(rpanic("MapIter.Key called before Next"))
		}
		return &rval{t: it.kt, v: copyVal(it.cur.k), ro: it.ro}
	}
	m["(*reflect.MapIter).Value"] = func(p *Path, fr *frame, args []value) value {
		it := iterOf(args[0])
		if it.cur == nil {
			panic(rpanic("MapIter.Value called before Next"))
		}
		return &rval{t: it.et, v: copyVal(it.cur.v), ro: it.ro}
	}
	V("MethodByName", func(p *Path, fr *frame, r *rval, a []value) value { return p.methodByName(r, cstr(a[0])) })
	V("NumMethod", func(p *Path, fr *frame, r *rval, a []value) value {
		if r.t == nil {
			panic(rpanic("call of reflect.Value.NumMethod on zero Value"))
		}
		ms := p.eng.prog.MethodSets.MethodSet(r.t)
		n := 0
		for i := 0; i < ms.Len(); i++ {
			if ms.At(i).Obj().Exported() {
				n++
			}
		}
		return BV(64, uint64(n))
	})
	V("Call", func(p *Path, fr *frame, r *rval, a []value) value {
		args, _ := a[0].([]value)
		return p.rCall(fr, r, args)
	})
	V("Comparable", func(p *Path, fr *frame, r *rval, a []value) value {
		if r.t == nil {
			return termTrue
		}
		if r.kind() == kInterface {
			it := r.get().(iface)
			return Bool(it.t == nil || types.Comparable(it.t))
		}
		return Bool(types.Comparable(r.t))
	})
	V("Equal", func(p *Path, fr *frame, r *rval, a []value) value {
		o := rv(a, 0)
		if r.t == nil || o.t == nil {
			return Bool(r.t == nil && o.t == nil)
		}
		if !types.Identical(r.t, o.t) {
			return termFalse
		}
		return equalsTerm(r.get(), o.get())
	})
}

var rtypeMethods map[string]func(p *Path, fr *frame, t types.Type, args []value) value

func init() {
	rtypeMethods = map[string]func(p *Path, fr *frame, t types.Type, args []value) value{
		"Kind": func(p *Path, fr *frame, t types.Type, a []value) value { return BV(64, uint64(typeKind(t))) },
		"Name": func(p *Path, fr *frame, t types.Type, a []value) value {
			switch n := types.Unalias(t).(type) {
			case *types.Named:
				name := n.Obj().Name()
				if ta := n.TypeArgs(); ta != nil && ta.Len() > 0 {
					var parts []string
					for i := 0; i < ta.Len(); i++ {
						parts = append(parts, types.TypeString(ta.At(i), nil))
					}
					name += "[" + strings.Join(parts, ",") + "]"
				}
				return name
			case *types.Basic:
				return n.Name()
			}
			return ""
		},
		"String": func(p *Path, fr *frame, t types.Type, a []value) value { return typeString(t) },
		"PkgPath": func(p *Path, fr *frame, t types.Type, a []value) value {
			if n, ok := types.Unalias(t).(*types.Named); ok && n.Obj().Pkg() != nil {
				return n.Obj().Pkg().Path()
			}
			return ""
		},
		"Elem": func(p *Path, fr *frame, t types.Type, a []value) value {
			switch u := t.Underlying().(type) {
			case *types.Pointer:
				return p.eng.rtypeIface(u.Elem())
			case *types.Slice:
				return p.eng.rtypeIface(u.Elem())
			case *types.Array:
				return p.eng.rtypeIface(u.Elem())
			case *types.Map:
				return p.eng.rtypeIface(u.Elem())
			case *types.Chan:
				return p.eng.rtypeIface(u.Elem())
			}
			panic(rpanic("Elem of invalid type %s", typeString(t)))
		},
		"Key": func(p *Path, fr *frame, t types.Type, a []value) value {
			if u, ok := t.Underlying().(*types.Map); ok {
				return p.eng.rtypeIface(u.Key())
			}
			panic(rpanic("Key of non-map type %s", typeString(t)))
		},
		"Len": func(p *Path, fr *frame, t types.Type, a []value) value {
			if u, ok := t.Underlying().(*types.Array); ok {
				return BV(64, uint64(u.Len()))
			}
			panic(rpanic("Len of non-array type %s", typeString(t)))
		},
		"NumField": func(p *Path, fr *frame, t types.Type, a []value) value {
			if u, ok := t.Underlying().(*types.Struct); ok {
				return BV(64, uint64(u.NumFields()))
			}
			panic(rpanic("NumField of non-struct type %s", typeString(t)))
		},
		"Field": func(p *Path, fr *frame, t types.Type, a []value) value {
			u, ok := t.Underlying().(*types.Struct)
			if !ok {
				panic(rpanic("Field of non-struct type %s", typeString(t)))
			}
			i := int(mustInt(a[0], "Type.Field index"))
			if i < 0 || i >= u.NumFields() {
				panic(rpanic("Field index out of bounds"))
			}
			return p.eng.structFieldValue(u, i, []int{i})
		},
		"FieldByName": func(p *Path, fr *frame, t types.Type, a []value) value {
			u, ok := t.Underlying().(*types.Struct)
			if !ok {
				panic(rpanic("FieldByName of non-struct type %s", typeString(t)))
			}
			idx, _, found := p.fieldByName(t, cstr(a[0]))
			if !found {
				sfT := p.eng.pkgs["reflect"].Type("StructField").Type()
				return tuple{zero(sfT), termFalse}
			}
			cur := u
			for _, i := range idx[:len(idx)-1] {
				ft := cur.Field(i).Type()
				if pt, ok := ft.Underlying().(*types.Pointer); ok {
					ft = pt.Elem()
				}
				cur = ft.Underlying().(*types.Struct)
			}
			return tuple{p.eng.structFieldValue(cur, idx[len(idx)-1], idx), termTrue}
		},
		"Implements": func(p *Path, fr *frame, t types.Type, a []value) value {
			u := typeOfArg(a[0])
			it, ok := u.Underlying().(*types.Interface)
			if !ok {
				panic(rpanic("non-interface type passed to Type.Implements"))
			}
			return Bool(types.Implements(t, it))
		},
		"AssignableTo": func(p *Path, fr *frame, t types.Type, a []value) value {
			return Bool(types.AssignableTo(t, typeOfArg(a[0])))
		},
		"ConvertibleTo": func(p *Path, fr *frame, t types.Type, a []value) value {
			return Bool(types.ConvertibleTo(t, typeOfArg(a[0])))
		},
		"Comparable": func(p *Path, fr *frame, t types.Type, a []value) value { return Bool(types.Comparable(t)) },
		"Bits": func(p *Path, fr *frame, t types.Type, a []value) value {
			if b, ok := t.Underlying().(*types.Basic); ok {
				if s, ok := basicSort(b); ok && s.K != SBool {
					return BV(64, uint64(s.W))
				}
			}
			panic(rpanic("Bits of non-arithmetic Type %s", typeString(t)))
		},
		"Size": func(p *Path, fr *frame, t types.Type, a []value) value {
			return BV(64, uint64(types.SizesFor("gc", "amd64").Sizeof(t)))
		},
		"NumMethod": func(p *Path, fr *frame, t types.Type, a []value) value {
			if it, ok := t.Underlying().(*types.Interface); ok {
				return BV(64, uint64(it.NumMethods()))
			}
			ms := p.eng.prog.MethodSets.MethodSet(t)
			n := 0
			for i := 0; i < ms.Len(); i++ {
				if ms.At(i).Obj().Exported() {
					n++
				}
			}
			return BV(64, uint64(n))
		},
		"MethodByName": func(p *Path, fr *frame, t types.Type, a []value) value {
			name := cstr(a[0])
			mT := p.eng.pkgs["reflect"].Type("Method").Type()
			ms := p.eng.prog.MethodSets.MethodSet(t)
			idx := 0
			for i := 0; i < ms.Len(); i++ {
				sel := ms.At(i)
				if !sel.Obj().Exported() {
					continue
				}
				if sel.Obj().Name() == name {
					fn := p.eng.prog.MethodValue(sel)
					sig := sel.Type().(*types.Signature)
					// Method.Type has the receiver as first parameter
					params := []*types.Var{types.NewVar(0, nil, "", t)}
					for j := 0; j < sig.Params().Len(); j++ {
						params = append(params, sig.Params().At(j))
					}
					full := types.NewSignatureType(nil, nil, nil, types.NewTuple(params...), sig.Results(), sig.Variadic())
					var fv value = (*ssa.Function)(nil)
					if fn != nil {
						fv = fn
					}
					return tuple{structure{name, "", p.eng.rtypeIface(full), &rval{t: full, v: fv}, BV(64, uint64(idx))}, termTrue}
				}
				idx++
			}
			return tuple{zero(mT), termFalse}
		},
		"NumIn": func(p *Path, fr *frame, t types.Type, a []value) value {
			return BV(64, uint64(t.Underlying().(*types.Signature).Params().Len()))
		},
		"In": func(p *Path, fr *frame, t types.Type, a []value) value {
			return p.eng.rtypeIface(t.Underlying().(*types.Signature).Params().At(int(mustInt(a[0], "In"))).Type())
		},
		"NumOut": func(p *Path, fr *frame, t types.Type, a []value) value {
			return BV(64, uint64(t.Underlying().(*types.Signature).Results().Len()))
		},
		"Out": func(p *Path, fr *frame, t types.Type, a []value) value {
			return p.eng.rtypeIface(t.Underlying().(*types.Signature).Results().At(int(mustInt(a[0], "Out"))).Type())
		},
		"IsVariadic": func(p *Path, fr *frame, t types.Type, a []value) value {
			return Bool(t.Underlying().(*types.Signature).Variadic())
		},
	}
}

func (e *Engine) nativeMethod(t types.Type, meth *types.Func) *nativeFunc {
	pt, ok := t.(*types.Pointer)
	if !ok || !isNamed(pt.Elem(), "reflect", "rtype") {
		return nil
	}
	name := meth.Name()
	f := rtypeMethods[name]
	if f == nil {
		return &nativeFunc{name: name, fn: func(p *Path, fr *frame, args []value) value {
			panic(unsupported{"reflect.Type." + name})
		}}
	}
	return &nativeFunc{name: "reflect.Type." + name, fn: func(p *Path, fr *frame, args []value) value {
		p.eng.noteStub("reflect.Type." + name)
		rt, ok := args[0].(rtype)
		if !ok {
			panic(unsupported{fmt.Sprintf("reflect.Type receiver %T", args[0])})
		}
		return f(p, fr, rt.t, args[1:])
	}}
}
