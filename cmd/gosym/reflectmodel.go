package main

import (
	"go/types"
)

// rval models reflect.Value: a typed reference to a location (addressable) or an rvalue.
type rval struct {
	t     types.Type // nil: invalid (zero Value)
	ref   *value     // location when addressable / obtained via pointer
	v     value      // rvalue when ref == nil
	ro    bool       // obtained through an unexported field
	addr  bool       // addressable (CanAddr)
}

// rtype models reflect.Type (the dynamic value behind the reflect.Type interface).
type rtype struct{ t types.Type }

func (rtype) isRtypeMarker() {}

func addReflect(e *Engine, m map[string]intrinsic) {}

func (e *Engine) nativeMethod(t types.Type, meth *types.Func) *nativeFunc { return nil }
