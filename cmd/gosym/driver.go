package main

// Loading /repo with harness overlays, path exploration over worker solvers,
// native replay, and per-harness result aggregation.

import (
	"bufio"
	"encoding/json"
	"fmt"
	"go/ast"
	"go/types"
	"os"
	"os/exec"
	"path/filepath"
	"regexp"
	"runtime"
	"sort"
	"strings"
	"sync"
	"time"

	"golang.org/x/tools/go/packages"
	"golang.org/x/tools/go/ssa"
	"golang.org/x/tools/go/ssa/ssautil"
)

// repoDir is the tree under check. The registered commands always use /repo; VERIF_REPO
// lets tools/run_seed.sh run a seeded change in a scratch worktree instead of /repo.
var repoDir = "/repo"

var verifDir = "/verif"

type HarnessSpec struct {
	Name     string
	PkgDir   string // relative to /repo, e.g. "util"
	Fn       *ssa.Function
	Opts     map[string]string // from //gosym:key=value directives
	File     string
	Property string
}

type Loaded struct {
	eng       *Engine
	harnesses map[string]*HarnessSpec
	overlay   map[string][]byte // virtual path -> content
	realFiles map[string]string // virtual path -> real path (for go build -overlay)
	tmpDir    string
	pkgDirs   []string
	loadTime  time.Duration
}

var harnessFuncRe = regexp.MustCompile(`(?m)^func (H_(C[0-9]+)_[A-Za-z0-9_]+)\(\)`)

// prepareOverlay maps harness files into /repo/<pkgdir>/ and generates the
// native API + registry files. genDirs maps virtual package dirs to directories
// holding generated Go (for generated-code properties).
func prepareOverlay(pkgDirs []string, tmpDir string) (*Loaded, error) {
	ld := &Loaded{overlay: map[string][]byte{}, realFiles: map[string]string{}, harnesses: map[string]*HarnessSpec{}, tmpDir: tmpDir, pkgDirs: pkgDirs}
	tmpl, err := os.ReadFile(filepath.Join(verifDir, "harness", "symapi.go.tmpl"))
	if err != nil {
		return nil, err
	}
	for _, pd := range pkgDirs {
		hdir := filepath.Join(verifDir, "harness", pd)
		files, _ := filepath.Glob(filepath.Join(hdir, "*.go"))
		if len(files) == 0 {
			return nil, fmt.Errorf("no harness files in %s", hdir)
		}
		pkgName := ""
		var names []string
		for _, f := range files {
			data, err := os.ReadFile(f)
			if err != nil {
				return nil, err
			}
			if m := regexp.MustCompile(`(?m)^package (\w+)`).FindSubmatch(data); m != nil {
				pkgName = string(m[1])
			}
			virt := filepath.Join(repoDir, pd, "zz_verif_"+filepath.Base(f))
			ld.overlay[virt] = data
			ld.realFiles[virt] = f
			for _, m := range harnessFuncRe.FindAllSubmatch(data, -1) {
				name := string(m[1])
				names = append(names, name)
				ld.harnesses[name] = &HarnessSpec{Name: name, PkgDir: pd, File: f, Property: string(m[2]), Opts: map[string]string{}}
			}
		}
		if pkgName == "" {
			return nil, fmt.Errorf("no package clause in %s", hdir)
		}
		// extra generated sources (e.g. generator output) placed in tmpDir/<pd>/
		gen, _ := filepath.Glob(filepath.Join(tmpDir, "gen", pd, "*.go"))
		for _, g := range gen {
			data, _ := os.ReadFile(g)
			virt := filepath.Join(repoDir, pd, filepath.Base(g))
			ld.overlay[virt] = data
			ld.realFiles[virt] = g
		}
		api := strings.Replace(string(tmpl), "PKGNAME", pkgName, 1)
		apiPath := filepath.Join(tmpDir, strings.ReplaceAll(pd, "/", "_")+"_symapi.go")
		os.WriteFile(apiPath, []byte(api), 0644)
		virt := filepath.Join(repoDir, pd, "zz_verif_symapi.go")
		ld.overlay[virt] = []byte(api)
		ld.realFiles[virt] = apiPath
		// registry + test entry point
		sort.Strings(names)
		var sb strings.Builder
		sb.WriteString("//go:build verif\n\npackage " + pkgName + "\n\nimport \"testing\"\n\nfunc TestVerifVectors(t *testing.T) {\n\tsymRunVectors(map[string]func(){\n")
		for _, n := range names {
			fmt.Fprintf(&sb, "\t\t%q: %s,\n", n, n)
		}
		sb.WriteString("\t})\n}\n")
		regPath := filepath.Join(tmpDir, strings.ReplaceAll(pd, "/", "_")+"_registry_test.go")
		os.WriteFile(regPath, []byte(sb.String()), 0644)
		virt = filepath.Join(repoDir, pd, "zz_verif_registry_test.go")
		ld.realFiles[virt] = regPath // native build only
	}
	return ld, nil
}

func goEnv() []string {
	env := os.Environ()
	env = append(env, "GOFLAGS=-mod=mod", "GOPROXY=off", "GOSUMDB=off", "GOTOOLCHAIN=local", "GOWORK=off")
	return env
}

func (ld *Loaded) load() error {
	start := time.Now()
	cfg := &packages.Config{
		Mode:       packages.LoadAllSyntax,
		Dir:        repoDir,
		// math_big_pure_go: the encoder reads math/big's portable Go kernels instead of
		// the assembly ones (same results; the native replay uses the default build)
		BuildFlags: []string{"-tags=verif,math_big_pure_go"},
		Overlay:    ld.overlay,
		Env:        goEnv(),
	}
	var patterns []string
	for _, pd := range ld.pkgDirs {
		patterns = append(patterns, "./"+pd)
	}
	initial, err := packages.Load(cfg, patterns...)
	if err != nil {
		return err
	}
	var errs []string
	packages.Visit(initial, nil, func(p *packages.Package) {
		for _, e := range p.Errors {
			if len(errs) < 10 {
				errs = append(errs, e.Error())
			}
		}
	})
	if len(errs) > 0 {
		return fmt.Errorf("load errors:\n%s", strings.Join(errs, "\n"))
	}
	prog, pkgs := ssautil.AllPackages(initial, ssa.InstantiateGenerics)
	eng := &Engine{
		prog:         prog,
		pkgs:         map[string]*ssa.Package{},
		funcsSeen:    map[*ssa.Function]bool{},
		stubsSeen:    map[string]bool{},
		inconclusive: map[string][]string{},
		shared:       map[*ssa.Global]*value{},
		sharedPkgs:   map[*ssa.Package]bool{},
		sharedErr:    map[*ssa.Package]string{},
		skip:         map[string]bool{},
	}
	eng.intrinsics = stdIntrinsics(eng)
	for _, p := range prog.AllPackages() {
		eng.pkgs[p.Pkg.Path()] = p
	}
	for i, p := range pkgs {
		if p == nil {
			return fmt.Errorf("no SSA package for %s", initial[i].PkgPath)
		}
		p.Build()
	}
	if rt := prog.ImportedPackage("runtime"); rt != nil {
		if t := rt.Type("errorString"); t != nil {
			eng.runtimeErrorT = t.Type()
		}
	}
	// resolve harness functions and read directives
	for i, ip := range initial {
		sp := pkgs[i]
		for _, f := range ip.Syntax {
			for _, d := range f.Decls {
				fd, ok := d.(*ast.FuncDecl)
				if !ok || fd.Recv != nil {
					continue
				}
				h := ld.harnesses[fd.Name.Name]
				if h == nil {
					continue
				}
				h.Fn = sp.Func(fd.Name.Name)
				if fd.Doc != nil {
					for _, c := range fd.Doc.List {
						if strings.HasPrefix(c.Text, "//gosym:") {
							kv := strings.SplitN(strings.TrimPrefix(c.Text, "//gosym:"), "=", 2)
							if len(kv) == 2 {
								h.Opts[strings.TrimSpace(kv[0])] = strings.TrimSpace(kv[1])
							}
						}
					}
				}
			}
		}
	}
	ld.eng = eng
	ld.loadTime = time.Since(start)
	return nil
}

// ---- exploration

type ExploreOpts struct {
	Workers   int
	MaxPaths  int
	Fuel      int
	Deadline  time.Time
	Solver    string
	TimeoutMs int
	Tier      int
	Samples   int
}

type HarnessResult struct {
	Name          string
	Paths         int
	ByStatus      map[string]int
	Decisions     int
	ForkPoints    int
	Asserts       int
	Passed        int
	ConcAsserts   int
	Unknowns      int
	Queries       int
	SolverTime    time.Duration
	Wall          time.Duration
	MaxSteps      int
	Reached       map[string]int
	Results       []AssertResult
	Samples       []map[string]interface{}
	Inconclusive  []string
	Unsupported   map[string]int
	Exhausted     bool // explored the whole tree within the budgets
	SolverErrors  int
}

func (ld *Loaded) explore(h *HarnessSpec, o ExploreOpts) *HarnessResult {
	eng := ld.eng
	res := &HarnessResult{Name: h.Name, ByStatus: map[string]int{}, Reached: map[string]int{}, Unsupported: map[string]int{}}
	start := time.Now()
	var mu sync.Mutex
	cond := sync.NewCond(&mu)
	stack := [][]Decision{nil}
	active := 0
	stop := false
	resultKeys := map[string]int{}
	var wg sync.WaitGroup
	for w := 0; w < o.Workers; w++ {
		wg.Add(1)
		go func(w int) {
			defer wg.Done()
			solver, err := NewSolver(o.Solver, o.TimeoutMs)
			if err != nil {
				mu.Lock()
				res.Inconclusive = append(res.Inconclusive, "cannot start solver: "+err.Error())
				stop = true
				cond.Broadcast()
				mu.Unlock()
				return
			}
			defer func() {
				mu.Lock()
				res.Queries += solver.Queries
				res.SolverTime += solver.Time
				res.SolverErrors += solver.Errors
				mu.Unlock()
				solver.Close()
			}()
			for {
				mu.Lock()
				for len(stack) == 0 && active > 0 && !stop {
					cond.Wait()
				}
				if stop || len(stack) == 0 {
					mu.Unlock()
					cond.Broadcast()
					return
				}
				item := stack[len(stack)-1]
				stack = stack[:len(stack)-1]
				active++
				mu.Unlock()

				p := eng.runPath(solver, h, item, nil, o)

				mu.Lock()
				active--
				res.Paths++
				res.ByStatus[p.status]++
				res.Decisions += p.decisions
				res.ForkPoints += p.forkPoints
				res.Asserts += p.asserts
				res.Passed += p.passed
				res.ConcAsserts += p.concAsserts
				res.Unknowns += p.unknowns
				if p.steps > res.MaxSteps {
					res.MaxSteps = p.steps
				}
				for _, r := range p.reached {
					res.Reached[r]++
				}
				for _, r := range p.results {
					key := r.Label + "|" + r.Known + "|" + r.Kind
					if resultKeys[key] < 3 {
						res.Results = append(res.Results, r)
					}
					resultKeys[key]++
				}
				if p.sample != nil && len(res.Samples) < 2*o.Samples {
					res.Samples = append(res.Samples, p.sample)
				}
				if p.status == "unsupported" || p.status == "fuel" {
					if len(res.Unsupported) < 30 {
						res.Unsupported[p.status+": "+p.msg]++
					}
				}
				stack = append(stack, p.alts...)
				if res.Paths >= o.MaxPaths || time.Now().After(o.Deadline) || solver.dead {
					if (len(stack) > 0 || active > 0) && !stop {
						why := "path budget"
						if time.Now().After(o.Deadline) {
							why = "time budget"
						}
						if solver.dead {
							why = "solver process died"
						}
						res.Inconclusive = append(res.Inconclusive, fmt.Sprintf("%s exhausted after %d paths (%d pending)", why, res.Paths, len(stack)))
					}
					stop = true
				}
				cond.Broadcast()
				mu.Unlock()
			}
		}(w)
	}
	wg.Wait()
	res.Wall = time.Since(start)
	res.Exhausted = !stop || (len(stack) == 0 && len(res.Inconclusive) == 0)
	for k, n := range res.Unsupported {
		res.Inconclusive = append(res.Inconclusive, fmt.Sprintf("%s (%d paths)", k, n))
	}
	if res.Unknowns > 0 {
		res.Inconclusive = append(res.Inconclusive, fmt.Sprintf("solver returned unknown %d times", res.Unknowns))
	}
	if res.SolverErrors > 0 {
		res.Inconclusive = append(res.Inconclusive, fmt.Sprintf("solver printed %d error lines", res.SolverErrors))
	}
	eng.mu.Lock()
	res.Inconclusive = append(res.Inconclusive, eng.inconclusive[h.Name]...)
	eng.mu.Unlock()
	sort.Strings(res.Inconclusive)
	return res
}

// runPath executes the harness once along trace. concrete != nil selects concrete mode.
func (e *Engine) runPath(solver *Solver, h *HarnessSpec, trace []Decision, concrete map[string]interface{}, o ExploreOpts) (p *Path) {
	p = &Path{
		eng: e, solver: solver, harness: h.Fn, trace: trace, names: map[string]int{},
		fuel: o.Fuel, globals: map[*ssa.Global]*value{}, initDone: map[*ssa.Package]bool{},
		concreteInputs: concrete, status: "ok", tier: o.Tier,
		dom: map[string]*byteDom{}, entangled: map[string]bool{},
	}
	if solver != nil {
		solver.Push()
		defer solver.Pop()
	}
	func() {
		defer func() {
			r := recover()
			if r == nil {
				return
			}
			switch r := r.(type) {
			case pathEnd:
				p.status, p.msg = r.status, r.msg
			case unsupported:
				p.status, p.msg = "unsupported", r.msg
			case targetPanic:
				p.status, p.msg = "panic", r.msg
				p.traceLines = append(p.traceLines, "PANIC")
				if concrete == nil {
					func() {
						defer func() {
							if r2 := recover(); r2 != nil {
								if pe, ok := r2.(pathEnd); ok && pe.status == "violation" {
									return
								}
								panic(r2)
							}
						}()
						label := r.msg
						if len(label) > 120 {
							label = label[:120]
						}
						p.checkProperty(termFalse, "panic: "+label, "panic")
					}()
				}
			default:
				buf := make([]byte, 8192)
				n := runtime.Stack(buf, false)
				p.status, p.msg = "unsupported", fmt.Sprintf("engine bug: %v\n%s", r, buf[:n])
			}
		}()
		p.callSSA(nil, 0, h.Fn, nil, nil)
	}()
	if concrete == nil && p.status == "ok" && o.Samples > 0 && e.wantSample(h.Name, o.Samples) {
		if m, r := p.currentModel(); r == Sat {
			p.sample = p.modelInputs(m)
		}
	}
	return p
}

// ---- native execution of vectors

type Vector struct {
	Harness string                 `json:"harness"`
	Inputs  map[string]interface{} `json:"inputs"`
}

type NativeTrace struct {
	Lines []string
}

// buildNative compiles the test binary of pkgDir with the harness overlay.
func (ld *Loaded) buildNative(pkgDir string) (string, error) {
	ov := map[string]map[string]string{"Replace": {}}
	// the package's own overlay files plus those of every generated package (a harness
	// package may import another generated package)
	for virt, real := range ld.realFiles {
		if filepath.Dir(virt) == filepath.Join(repoDir, pkgDir) || strings.Contains(virt, "/zz_verif_gen/") {
			ov["Replace"][virt] = real
		}
	}
	// the package's own tests are not needed for the replay (and some import generated
	// packages that are empty in this tree): blank them out in the overlay
	if tests, _ := filepath.Glob(filepath.Join(repoDir, pkgDir, "*_test.go")); len(tests) > 0 {
		for i, tf := range tests {
			if _, ours := ov["Replace"][tf]; ours {
				continue
			}
			src, err := os.ReadFile(tf)
			if err != nil {
				continue
			}
			clause := ""
			for _, l := range strings.Split(string(src), "\n") {
				if strings.HasPrefix(l, "package ") {
					clause = l
					break
				}
			}
			if clause == "" {
				continue
			}
			stub := filepath.Join(ld.tmpDir, fmt.Sprintf("%s_blank%d.go", strings.ReplaceAll(pkgDir, "/", "_"), i))
			os.WriteFile(stub, []byte(clause+"\n"), 0644)
			ov["Replace"][tf] = stub
		}
	}
	ovPath := filepath.Join(ld.tmpDir, strings.ReplaceAll(pkgDir, "/", "_")+"_overlay.json")
	data, _ := json.Marshal(ov)
	os.WriteFile(ovPath, data, 0644)
	bin := filepath.Join(ld.tmpDir, strings.ReplaceAll(pkgDir, "/", "_")+".test")
	cmd := exec.Command("go", "test", "-tags=verif", "-overlay", ovPath, "-vet=off", "-c", "-o", bin, "./"+pkgDir)
	cmd.Dir = repoDir
	cmd.Env = goEnv()
	out, err := cmd.CombinedOutput()
	if err != nil {
		return "", fmt.Errorf("native build of %s failed: %v\n%s", pkgDir, err, out)
	}
	return bin, nil
}

func (ld *Loaded) runNative(bin string, vecs []Vector, timeout time.Duration) ([]NativeTrace, error) {
	vp := filepath.Join(ld.tmpDir, "vectors.json")
	tp := filepath.Join(ld.tmpDir, "trace.txt")
	data, _ := json.Marshal(vecs)
	os.WriteFile(vp, data, 0644)
	os.Remove(tp)
	cmd := exec.Command(bin, "-test.run=^TestVerifVectors$", "-test.timeout="+timeout.String())
	cmd.Dir = ld.tmpDir
	cmd.Env = append(os.Environ(), "VERIF_VECTORS="+vp, "VERIF_TRACE="+tp)
	out, err := cmd.CombinedOutput()
	f, ferr := os.Open(tp)
	if ferr != nil {
		return nil, fmt.Errorf("native run produced no trace: %v\n%s", err, out)
	}
	defer f.Close()
	traces := make([]NativeTrace, len(vecs))
	cur := -1
	sc := bufio.NewScanner(f)
	sc.Buffer(make([]byte, 1<<20), 1<<24)
	for sc.Scan() {
		l := sc.Text()
		if strings.HasPrefix(l, "VEC ") {
			cur++
			continue
		}
		if cur >= 0 && cur < len(traces) && l != "END" {
			traces[cur].Lines = append(traces[cur].Lines, l)
		}
	}
	if cur+1 < len(vecs) {
		// the binary died (fatal error, os.Exit, timeout) while running vector cur
		if cur >= 0 {
			traces[cur].Lines = append(traces[cur].Lines, "CRASH "+lastLines(string(out), 3))
		}
		for i := cur + 1; i < len(vecs); i++ {
			traces[i].Lines = append(traces[i].Lines, "NOTRUN")
		}
	}
	return traces, nil
}

func lastLines(s string, n int) string {
	ls := strings.Split(strings.TrimSpace(s), "\n")
	if len(ls) > n {
		ls = ls[len(ls)-n:]
	}
	return strings.Join(ls, " | ")
}

// confirms reports whether the native trace reproduces the engine's finding.
func confirms(r AssertResult, tr NativeTrace) bool {
	for _, l := range tr.Lines {
		if r.Kind == "panic" && (strings.HasPrefix(l, "PANIC") || strings.HasPrefix(l, "CRASH")) {
			return true
		}
		if r.Kind == "assert" && l == "ASSERTFAIL "+r.Label {
			return true
		}
	}
	return false
}

// normalise a native trace to the engine's comparison form
func normTrace(lines []string) []string {
	var out []string
	for _, l := range lines {
		if strings.HasPrefix(l, "PANIC") || strings.HasPrefix(l, "CRASH") {
			out = append(out, "PANIC")
			continue
		}
		out = append(out, l)
	}
	return out
}

var _ = types.Universe
