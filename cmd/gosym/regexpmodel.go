package main

// Model of package regexp for *concrete* patterns: the pattern is compiled by the
// real regexp/syntax natively and its NFA program is simulated over the (possibly
// symbolic) runes of the subject, giving one Bool term for MatchString — exact for
// the concrete length of the subject on the path. Patterns with symbolic bytes are
// unsupported.

import (
	"fmt"
	"go/types"
	"regexp"
	"regexp/syntax"
)

type reObj struct {
	re    *regexp.Regexp
	prog  *syntax.Prog
	src   string
	posix bool
	err   error
}

func (p *Path) compileRe(pat value, posix bool) (*reObj, error) {
	s, ok := pat.(string)
	if !ok {
		panic(unsupported{"regexp.Compile on a pattern with symbolic bytes"})
	}
	var re *regexp.Regexp
	var err error
	flags := syntax.Perl
	if posix {
		re, err = regexp.CompilePOSIX(s)
		flags = syntax.POSIX
	} else {
		re, err = regexp.Compile(s)
	}
	if err != nil {
		return nil, err
	}
	rs, err := syntax.Parse(s, flags)
	if err != nil {
		return nil, err
	}
	prog, err := syntax.Compile(rs.Simplify())
	if err != nil {
		return nil, err
	}
	return &reObj{re: re, prog: prog, src: s, posix: posix}, nil
}

func reOf(v value) *reObj {
	ptr, ok := v.(*value)
	if !ok || ptr == nil {
		panic(runtimePanic("invalid memory address or nil pointer dereference (nil *regexp.Regexp)"))
	}
	ro, ok := (*ptr).(*reObj)
	if !ok {
		panic(unsupported{"*regexp.Regexp not created by regexp.Compile"})
	}
	return ro
}

// runesOf decodes the subject into rune terms (forking on UTF-8 byte classes).
func (p *Path) runesOf(s value) []*Term {
	if cs, ok := s.(string); ok {
		var out []*Term
		for _, r := range cs {
			out = append(out, BV(32, uint64(uint32(r))))
		}
		return out
	}
	bs := strBytes(s)
	var out []*Term
	for i := 0; i < len(bs); {
		r, w := decodeRuneSym(p, bs[i:])
		out = append(out, r)
		i += w
	}
	return out
}

func runeMatchTerm(in *syntax.Inst, r *Term) *Term {
	switch in.Op {
	case syntax.InstRuneAny:
		return termTrue
	case syntax.InstRuneAnyNotNL:
		return Not(Eq(r, BV(32, '\n')))
	case syntax.InstRune1:
		if syntax.Flags(in.Arg)&syntax.FoldCase != 0 {
			return foldOrbitTerm(in.Rune[0], r)
		}
		return Eq(r, BV(32, uint64(uint32(in.Rune[0]))))
	case syntax.InstRune:
		if syntax.Flags(in.Arg)&syntax.FoldCase != 0 {
			if len(in.Rune) == 1 {
				return foldOrbitTerm(in.Rune[0], r)
			}
			panic(unsupported{"regexp: case folding of a character class"})
		}
		if len(in.Rune) == 1 {
			return Eq(r, BV(32, uint64(uint32(in.Rune[0]))))
		}
		c := termFalse
		for i := 0; i+1 < len(in.Rune); i += 2 {
			lo, hi := uint64(uint32(in.Rune[i])), uint64(uint32(in.Rune[i+1]))
			if lo == hi {
				c = Or(c, Eq(r, BV(32, lo)))
			} else {
				c = Or(c, And(Cmp(OULe, BV(32, lo), r), Cmp(OULe, r, BV(32, hi))))
			}
		}
		return c
	}
	panic(unsupported{fmt.Sprintf("regexp: instruction %v", in.Op)})
}

// matchTerm returns the term "prog matches somewhere in runes" (unanchored search, as
// MatchString does; anchors in the pattern are honoured).
func (p *Path) matchTerm(prog *syntax.Prog, runes []*Term) *Term {
	n := len(runes)
	matched := termFalse
	active := map[uint32]*Term{}
	var closure func(pc uint32, cond *Term, pos int, onStack map[uint32]bool, next map[uint32]*Term)
	emptyCond := func(op syntax.EmptyOp, pos int) *Term {
		c := termTrue
		if op&syntax.EmptyBeginText != 0 {
			c = And(c, Bool(pos == 0))
		}
		if op&syntax.EmptyEndText != 0 {
			c = And(c, Bool(pos == n))
		}
		if op&syntax.EmptyBeginLine != 0 {
			if pos != 0 {
				c = And(c, Eq(runes[pos-1], BV(32, '\n')))
			}
		}
		if op&syntax.EmptyEndLine != 0 {
			if pos != n {
				c = And(c, Eq(runes[pos], BV(32, '\n')))
			}
		}
		if op&(syntax.EmptyWordBoundary|syntax.EmptyNoWordBoundary) != 0 {
			panic(unsupported{"regexp: word boundary"})
		}
		return c
	}
	closure = func(pc uint32, cond *Term, pos int, onStack map[uint32]bool, next map[uint32]*Term) {
		if cond == termFalse || onStack[pc] {
			return
		}
		onStack[pc] = true
		defer delete(onStack, pc)
		in := &prog.Inst[pc]
		switch in.Op {
		case syntax.InstFail:
		case syntax.InstMatch:
			matched = Or(matched, cond)
		case syntax.InstAlt, syntax.InstAltMatch:
			closure(in.Out, cond, pos, onStack, next)
			closure(in.Arg, cond, pos, onStack, next)
		case syntax.InstCapture, syntax.InstNop:
			closure(in.Out, cond, pos, onStack, next)
		case syntax.InstEmptyWidth:
			closure(in.Out, And(cond, emptyCond(syntax.EmptyOp(in.Arg), pos)), pos, onStack, next)
		default: // rune instructions
			if old, ok := next[pc]; ok {
				next[pc] = Or(old, cond)
			} else {
				next[pc] = cond
			}
		}
	}
	closure(uint32(prog.Start), termTrue, 0, map[uint32]bool{}, active)
	for pos := 0; pos < n; pos++ {
		next := map[uint32]*Term{}
		for pc, cond := range active {
			in := &prog.Inst[pc]
			mc := runeMatchTerm(in, runes[pos])
			closure(in.Out, And(cond, mc), pos+1, map[uint32]bool{}, next)
		}
		// unanchored search: a match may also start at pos+1
		closure(uint32(prog.Start), termTrue, pos+1, map[uint32]bool{}, next)
		active = next
		if matched == termTrue {
			break
		}
	}
	return matched
}

func addRegexp(e *Engine, m map[string]intrinsic) {
	mkRe := func(p *Path, ro *reObj) value {
		cell := value(ro)
		return &cell
	}
	compile := func(posix bool) intrinsic {
		return func(p *Path, fr *frame, args []value) value {
			ro, err := p.compileRe(args[0], posix)
			if err != nil {
				return tupleOf((*value)(nil), p.mkError("error parsing regexp: "+err.Error()))
			}
			return tupleOf(mkRe(p, ro), iface{})
		}
	}
	m["regexp.Compile"] = compile(false)
	m["regexp.CompilePOSIX"] = compile(true)
	must := func(posix bool) intrinsic {
		return func(p *Path, fr *frame, args []value) value {
			ro, err := p.compileRe(args[0], posix)
			if err != nil {
				panic(targetPanic{msg: "regexp: Compile: " + err.Error(), v: iface{t: types.Typ[types.String], v: "regexp: " + err.Error()}})
			}
			return mkRe(p, ro)
		}
	}
	m["regexp.MustCompile"] = must(false)
	m["regexp.MustCompilePOSIX"] = must(true)
	m["(*regexp.Regexp).MatchString"] = func(p *Path, fr *frame, args []value) value {
		ro := reOf(args[0])
		if s, ok := args[1].(string); ok {
			return Bool(ro.re.MatchString(s))
		}
		return p.matchTerm(ro.prog, p.runesOf(args[1]))
	}
	m["(*regexp.Regexp).Match"] = func(p *Path, fr *frame, args []value) value {
		ro := reOf(args[0])
		bs, _ := bytesOfSlice(args[1])
		s := mkStr(bs)
		if cs, ok := s.(string); ok {
			return Bool(ro.re.MatchString(cs))
		}
		return p.matchTerm(ro.prog, p.runesOf(s))
	}
	m["regexp.MatchString"] = func(p *Path, fr *frame, args []value) value {
		ro, err := p.compileRe(args[0], false)
		if err != nil {
			return tupleOf(termFalse, p.mkError(err.Error()))
		}
		if s, ok := args[1].(string); ok {
			return tupleOf(Bool(ro.re.MatchString(s)), iface{})
		}
		return tupleOf(p.matchTerm(ro.prog, p.runesOf(args[1])), iface{})
	}
	m["(*regexp.Regexp).String"] = func(p *Path, fr *frame, args []value) value { return reOf(args[0]).src }
	m["(*regexp.Regexp).FindString"] = func(p *Path, fr *frame, args []value) value {
		ro := reOf(args[0])
		if s, ok := args[1].(string); ok {
			return ro.re.FindString(s)
		}
		panic(unsupported{"(*regexp.Regexp).FindString on symbolic string"})
	}
	m["(*regexp.Regexp).FindStringSubmatch"] = func(p *Path, fr *frame, args []value) value {
		ro := reOf(args[0])
		if s, ok := args[1].(string); ok {
			r := ro.re.FindStringSubmatch(s)
			if r == nil {
				return []value(nil)
			}
			return sliceOfStrings(r)
		}
		panic(unsupported{"(*regexp.Regexp).FindStringSubmatch on symbolic string"})
	}
	m["(*regexp.Regexp).ReplaceAllString"] = func(p *Path, fr *frame, args []value) value {
		ro := reOf(args[0])
		if allConcrete(args[1:3]) {
			return ro.re.ReplaceAllString(args[1].(string), args[2].(string))
		}
		panic(unsupported{"(*regexp.Regexp).ReplaceAllString on symbolic string"})
	}
	m["regexp.QuoteMeta"] = func(p *Path, fr *frame, args []value) value {
		if s, ok := args[0].(string); ok {
			return regexp.QuoteMeta(s)
		}
		panic(unsupported{"regexp.QuoteMeta on symbolic string"})
	}
}
