package main

// Exact value-set domain for 8-bit variables (DESIGN 2.3 "cheap decisions").
// A branch condition that mentions a single byte variable and constants is
// decided on the set of values allowed by the unary constraints of the path:
// sound and complete as long as the variable occurs in no multi-variable
// constraint (unary constraints on distinct variables are independent);
// otherwise the domain still proves one-sidedness and the solver does the rest.

type byteDom [4]uint64

func fullDom() *byteDom { return &byteDom{^uint64(0), ^uint64(0), ^uint64(0), ^uint64(0)} }

func (d *byteDom) has(v int) bool { return d[v>>6]&(1<<uint(v&63)) != 0 }
func (d *byteDom) clear(v int)    { d[v>>6] &^= 1 << uint(v&63) }

const domMaxTermSize = 400

// singleVar returns the only variable occurring in t (nil if none or several).
// state: 1 none, 2 single, 3 multi
func (t *Term) singleVar() (*Term, int) {
	if t.svState != 0 {
		return t.sv, t.svState
	}
	switch t.op {
	case OConst:
		t.svState = 1
	case OVar:
		t.sv, t.svState = t, 2
	default:
		st := 1
		var v *Term
	loop:
		for _, a := range t.args {
			av, ast := a.singleVar()
			switch ast {
			case 3:
				st = 3
				break loop
			case 2:
				if st == 1 {
					v, st = av, 2
				} else if av.name != v.name {
					st = 3
					break loop
				}
			}
		}
		if st == 2 {
			t.sv = v
		}
		t.svState = st
	}
	return t.sv, t.svState
}

func isByteVar(v *Term) bool { return v.sort.K == SBV && v.sort.W == 8 }

// domSplit evaluates c over the domain of its single byte variable.
// ok=false if c is not a (small) unary byte condition.
func (p *Path) domSplit(c *Term) (v *Term, nTrue, nFalse int, ok bool) {
	v, st := c.singleVar()
	if st != 2 || !isByteVar(v) || c.size > domMaxTermSize {
		return nil, 0, 0, false
	}
	d := p.dom[v.name]
	m := Model{}
	for x := 0; x < 256; x++ {
		if d != nil && !d.has(x) {
			continue
		}
		m[v.name] = uint64(x)
		r, evok := c.Ev(m)
		if !evok {
			return nil, 0, 0, false
		}
		if r != 0 {
			nTrue++
		} else {
			nFalse++
		}
	}
	return v, nTrue, nFalse, true
}

// noteConstraint records an asserted path constraint in the domain tables.
func (p *Path) noteConstraint(c *Term) {
	v, st := c.singleVar()
	if st == 1 {
		return
	}
	if st == 2 && isByteVar(v) && c.size <= domMaxTermSize {
		d := p.dom[v.name]
		if d == nil {
			d = fullDom()
			p.dom[v.name] = d
		}
		m := Model{}
		for x := 0; x < 256; x++ {
			if !d.has(x) {
				continue
			}
			m[v.name] = uint64(x)
			r, ok := c.Ev(m)
			if ok && r == 0 {
				d.clear(x)
			}
		}
		return
	}
	if st == 2 {
		p.entangled[v.name] = true // unary but not tracked exactly: treat as entangled
		return
	}
	vars := map[string]*Term{}
	c.Vars(vars, map[*Term]bool{})
	for n := range vars {
		p.entangled[n] = true
	}
}

// fixModel makes lastModel satisfy the unary condition c on a non-entangled variable.
func (p *Path) fixModel(c *Term, v *Term, want bool) {
	if p.lastModel == nil {
		return
	}
	d := p.dom[v.name]
	m := Model{}
	for x := 0; x < 256; x++ {
		if d != nil && !d.has(x) {
			continue
		}
		m[v.name] = uint64(x)
		r, ok := c.Ev(m)
		if ok && (r != 0) == want {
			p.lastModel[v.name] = uint64(x)
			return
		}
	}
	p.lastModel = nil
}
