package main

import (
	"encoding/json"
	"flag"
	"fmt"
	"os"
	"os/exec"
	"path/filepath"
	"regexp"
	"sort"
	"strconv"
	"strings"
	"time"
)

var reachRe = regexp.MustCompile(`symReach\("([^"]+)"\)`)

type harnessEvidence struct {
	Name          string            `json:"name"`
	Paths         int               `json:"paths"`
	PathStatus    map[string]int    `json:"path_status"`
	Decisions     int               `json:"branch_decisions"`
	ForkPoints    int               `json:"two_sided_branches"`
	AssertQueries int               `json:"assert_queries"`
	AssertUnsat   int               `json:"assert_queries_unsat"`
	ConcAsserts   int               `json:"asserts_decided_concretely_after_forking"`
	Queries       int               `json:"solver_queries"`
	SolverTimeS   float64           `json:"solver_time_s"`
	WallS         float64           `json:"wall_s"`
	MaxSteps      int               `json:"max_ssa_instructions_on_a_path"`
	Fuel          int               `json:"fuel"`
	Reach         map[string]int    `json:"reach_witnesses"`
	Exhaustive    bool              `json:"explored_every_path_within_bound"`
	Inconclusive  []string          `json:"inconclusive,omitempty"`
	TracesChecked int               `json:"traces_validated_against_impl"`
	TraceMismatch []string          `json:"trace_mismatches,omitempty"`
	Solver        string            `json:"solver"`
	Opts          map[string]string `json:"directives,omitempty"`
}

func cmdCheck(args []string) int {
	fs := flag.NewFlagSet("check", flag.ExitOnError)
	pid := fs.String("p", "", "property id")
	tier := fs.String("tier", "", "quick|thorough")
	only := fs.String("only", "", "run only this harness (development)")
	fs.Parse(args)
	if *tier == "" {
		*tier = os.Getenv("VERIF_TIER")
		if *tier == "" {
			*tier = "quick"
		}
	}
	seed, _ := strconv.Atoi(os.Getenv("VERIF_SEED"))
	start := time.Now()
	props := loadProps()
	ps := props[*pid]
	if ps == nil {
		fatal("unknown property %s", *pid)
	}
	known := loadKnown()
	tmp, err := os.MkdirTemp("", "gosym-"+*pid+"-")
	if err != nil {
		fatal("%v", err)
	}
	defer os.RemoveAll(tmp)

	evidencePath := filepath.Join(verifDir, "evidence", *pid+".json")
	os.MkdirAll(filepath.Dir(evidencePath), 0755)
	os.Remove(evidencePath)

	if err := runGenerators(ps, tmp); err != nil {
		writeFailureEvidence(evidencePath, ps, *tier, seed, start, "generator: "+err.Error())
		fmt.Println("INCONCLUSIVE: generator failed:", err)
		return 0
	}
	ld, err := prepareOverlay(ps.Pkgs, tmp)
	if err != nil {
		fatal("%v", err)
	}
	if err := ld.load(); err != nil {
		// the tree no longer type-checks with the harness: report, do not alarm
		writeFailureEvidence(evidencePath, ps, *tier, seed, start, "load: "+err.Error())
		fmt.Println("INCONCLUSIVE: cannot load /repo with harnesses:", err)
		return 0
	}
	var names []string
	for n, h := range ld.harnesses {
		if h.Property != *pid || h.Fn == nil {
			continue
		}
		if *only != "" && n != *only {
			continue
		}
		if h.Opts["tier"] == "thorough" && *tier != "thorough" {
			continue
		}
		names = append(names, n)
	}
	sort.Strings(names)
	if len(names) == 0 {
		fatal("no harnesses for %s", *pid)
	}

	var hev []harnessEvidence
	var samples []interface{}
	violations := 0
	knownSeen := map[string]bool{}
	var unconfirmed []string
	totalPaths, totalDecisions, totalTraces, totalAsserts, totalUnsat, totalQueries := 0, 0, 0, 0, 0, 0
	nontrivial := 0
	solverTime := 0.0
	natBins := map[string]string{}
	getBin := func(pd string) (string, error) {
		if b, ok := natBins[pd]; ok {
			return b, nil
		}
		b, err := ld.buildNative(pd)
		if err == nil {
			natBins[pd] = b
		}
		return b, err
	}
	var outLines []string

	for _, n := range names {
		h := ld.harnesses[n]
		o := applyHarnessOpts(defaultOpts(*tier), h, *tier)
		if s := os.Getenv("GOSYM_SOLVER"); s != "" { // cross-check with another back end (tools/run_cross_solver.sh)
			o.Solver = s
		}
		res := ld.explore(h, o)
		he := harnessEvidence{
			Name: n, Paths: res.Paths, PathStatus: res.ByStatus, Decisions: res.Decisions, ForkPoints: res.ForkPoints,
			AssertQueries: res.Asserts, AssertUnsat: res.Passed, ConcAsserts: res.ConcAsserts, Queries: res.Queries,
			SolverTimeS: round3(res.SolverTime.Seconds()), WallS: round3(res.Wall.Seconds()), MaxSteps: res.MaxSteps, Fuel: o.Fuel,
			Reach: res.Reached, Exhaustive: res.Exhausted && len(res.Inconclusive) == 0, Inconclusive: res.Inconclusive,
			Solver: o.Solver, Opts: h.Opts,
		}
		// vacuity: every symReach label in the harness source must be reached
		if src, err := os.ReadFile(h.File); err == nil {
			body := harnessBody(string(src), n)
			for _, m := range reachRe.FindAllStringSubmatch(body, -1) {
				if res.Reached[m[1]] == 0 {
					he.Inconclusive = append(he.Inconclusive, "vacuity: reach label never reached: "+m[1])
					he.Exhaustive = false
				}
			}
		}
		totalPaths += res.Paths
		totalDecisions += res.Decisions
		totalAsserts += res.Asserts + res.ConcAsserts
		totalUnsat += res.Passed + res.ConcAsserts
		totalQueries += res.Queries
		solverTime += res.SolverTime.Seconds()
		nontrivial += res.ByStatus["ok"] + res.ByStatus["violation"] + res.ByStatus["panic"]

		// translator validation: concrete engine run vs native run on sampled models
		if len(res.Samples) > 0 {
			bin, err := getBin(h.PkgDir)
			if err != nil {
				he.Inconclusive = append(he.Inconclusive, "native build failed: "+firstLine(err.Error()))
			} else {
				var vecs []Vector
				for _, s := range res.Samples {
					s["__tier"] = strconv.Itoa(o.Tier)
					vecs = append(vecs, Vector{Harness: n, Inputs: s})
				}
				traces, err := ld.runNative(bin, vecs, 3*time.Minute)
				if err != nil {
					he.Inconclusive = append(he.Inconclusive, "native run failed: "+firstLine(err.Error()))
				} else {
					for i, v := range vecs {
						cp := ld.eng.runPath(nil, h, nil, v.Inputs, o)
						et := strings.Join(cp.traceLines, "\n")
						nt := strings.Join(normTrace(traces[i].Lines), "\n")
						if cp.status == "unsupported" {
							he.Inconclusive = append(he.Inconclusive, "concrete-mode run unsupported: "+firstLine(cp.msg))
							continue
						}
						he.TracesChecked++
						if et != nt {
							js, _ := json.Marshal(v.Inputs)
							he.TraceMismatch = append(he.TraceMismatch, fmt.Sprintf("inputs=%s engine=%q native=%q", js, et, nt))
						}
					}
					if len(he.TraceMismatch) > 0 {
						he.Inconclusive = append(he.Inconclusive, fmt.Sprintf("translator validation: %d trace mismatches between engine and native run", len(he.TraceMismatch)))
					}
				}
			}
			for i, s := range res.Samples {
				if i < 3 {
					samples = append(samples, map[string]interface{}{"harness": n, "inputs": s})
				}
			}
		}
		totalTraces += he.TracesChecked

		// confirm witnesses natively
		if len(res.Results) > 0 {
			bin, err := getBin(h.PkgDir)
			if err != nil {
				he.Inconclusive = append(he.Inconclusive, "native build failed: "+firstLine(err.Error()))
			} else {
				var vecs []Vector
				for _, r := range res.Results {
					r.Inputs["__tier"] = strconv.Itoa(o.Tier)
					vecs = append(vecs, Vector{Harness: n, Inputs: r.Inputs})
				}
				reps := 1
				if h.Opts["replay_repeat"] != "" {
					reps, _ = strconv.Atoi(h.Opts["replay_repeat"])
				}
				ok := make([]bool, len(vecs))
				var lastTr []NativeTrace
				for rep := 0; rep < reps; rep++ {
					traces, err := ld.runNative(bin, vecs, 3*time.Minute)
					if err != nil {
						he.Inconclusive = append(he.Inconclusive, "native replay failed: "+firstLine(err.Error()))
						break
					}
					lastTr = traces
					all := true
					for i, r := range res.Results {
						if confirms(r, traces[i]) {
							ok[i] = true
						}
						all = all && ok[i]
					}
					if all {
						break
					}
				}
				seenViolation := map[string]bool{}
				for i, r := range res.Results {
					if !ok[i] {
						js, _ := json.Marshal(r.Inputs)
						tr := ""
						if lastTr != nil {
							tr = strings.Join(lastTr[i].Lines, "; ")
						}
						unconfirmed = append(unconfirmed, fmt.Sprintf("%s %q inputs=%s native=%q", n, r.Label, js, tr))
						continue
					}
					kf := findKnown(known, *pid, r.Known)
					if r.Known != "" && kf != nil && kf.Status == "open" {
						if !knownSeen[r.Known] {
							knownSeen[r.Known] = true
							outLines = append(outLines, fmt.Sprintf("KNOWN-FINDING: property=%s %s: %s", *pid, kf.ID, kf.What))
						}
						continue
					}
					key := n + "|" + r.Label + "|" + r.Known
					if seenViolation[key] {
						continue
					}
					seenViolation[key] = true
					violations++
					rp := writeReplay(*pid, h, r, violations)
					what := r.Label
					if r.Known != "" {
						what += " (region " + r.Known + " is not an open known finding)"
					}
					outLines = append(outLines, fmt.Sprintf("VIOLATION property=%s replay=%s harness=%s what=%q", *pid, rp, n, what))
				}
			}
		}
		hev = append(hev, he)
		fmt.Fprintf(os.Stderr, "[%s] %s paths=%d %v asserts=%d/%d queries=%d wall=%.1fs inconclusive=%d witnesses=%d\n",
			*pid, n, res.Paths, res.ByStatus, res.Passed+res.ConcAsserts, res.Asserts+res.ConcAsserts, res.Queries, res.Wall.Seconds(), len(he.Inconclusive), len(res.Results))
	}
	if len(unconfirmed) > 0 {
		for i := range hev {
			_ = i
		}
	}

	var inconcl []string
	for _, he := range hev {
		for _, s := range he.Inconclusive {
			inconcl = append(inconcl, he.Name+": "+s)
		}
	}
	for _, u := range unconfirmed {
		inconcl = append(inconcl, "UNCONFIRMED (engine counterexample did not reproduce natively; not reported): "+u)
	}
	if len(samples) == 0 {
		samples = append(samples, map[string]interface{}{"note": "no sample model available"})
	}
	var kfList []string
	for id := range knownSeen {
		kfList = append(kfList, id)
	}
	sort.Strings(kfList)
	cov := map[string]interface{}{
		"states":                        max1(totalPaths),
		"transitions":                   max1(totalDecisions),
		"traces_validated_against_impl": totalTraces,
		"samples":                       samples,
		"evaluations":                   max1(totalPaths),
		"distinct_nontrivial":           nontrivial,
		"rule":                          "one evaluation = one feasible path of a harness (distinct path condition); non-trivial = the path ran to completion, to an assertion failure or to a panic (infeasible-assumption, fuel and unsupported paths are not counted)",
		"obligations":                   totalAsserts,
		"discharged":                    totalUnsat,
		"queries":                       totalQueries,
		"solver_time_s":                 round3(solverTime),
		"harnesses":                     hev,
		"functions_encoded":             ld.eng.funcsEncoded(),
		"stubs_used":                    ld.eng.stubs(),
		"bounds":                        ps.Bounds,
		"inconclusive":                  inconcl,
		"known_findings_reproduced":     kfList,
		"exhaustive":                    false,
		"explanation":                   "bounded symbolic execution of the real SSA of /repo (regenerated this run); every assertion is an SMT query under the path condition; counterexamples are replayed natively before being reported",
		"load_time_s":                   round3(ld.loadTime.Seconds()),
	}
	ev := map[string]interface{}{
		"property_id": *pid,
		"tier":        *tier,
		"seed":        seed,
		"level":       "model_checking",
		"coverage":    cov,
		"assumptions": ps.Assumptions,
		"wall_s":      round3(time.Since(start).Seconds()),
		"violations":  violations,
	}
	data, _ := json.MarshalIndent(ev, "", " ")
	if err := os.WriteFile(evidencePath, data, 0644); err != nil {
		fatal("%v", err)
	}
	for _, l := range outLines {
		fmt.Println(l)
	}
	for _, s := range inconcl {
		fmt.Println("INCONCLUSIVE:", s)
	}
	fmt.Printf("%s %s: harnesses=%d paths=%d obligations=%d discharged=%d queries=%d violations=%d wall=%.1fs\n",
		*pid, *tier, len(hev), totalPaths, totalAsserts, totalUnsat, totalQueries, violations, time.Since(start).Seconds())
	if violations > 0 {
		return 1
	}
	return 0
}

func max1(n int) int {
	if n < 1 {
		return 1
	}
	return n
}

func round3(f float64) float64 { return float64(int64(f*1000+0.5)) / 1000 }

func firstLine(s string) string {
	if i := strings.IndexByte(s, '\n'); i >= 0 {
		s = s[:i]
	}
	if len(s) > 300 {
		s = s[:300]
	}
	return s
}

func findKnown(k []KnownFinding, pid, id string) *KnownFinding {
	for i := range k {
		if k[i].Property == pid && k[i].ID == id {
			return &k[i]
		}
	}
	return nil
}

// harnessBody returns the source text of harness function name and the helpers
// that follow it up to the next harness (approximation used for vacuity checks).
func harnessBody(src, name string) string {
	i := strings.Index(src, "func "+name+"()")
	if i < 0 {
		return ""
	}
	rest := src[i+1:]
	j := strings.Index(rest, "\nfunc H_")
	if j < 0 {
		return rest
	}
	return rest[:j]
}

func writeReplay(pid string, h *HarnessSpec, r AssertResult, n int) string {
	dir := filepath.Join(verifDir, "replays", pid)
	os.MkdirAll(dir, 0755)
	path := filepath.Join(dir, fmt.Sprintf("%s-%d.json", h.Name, n))
	obj := map[string]interface{}{
		"property": pid, "pkgdir": h.PkgDir, "harness": h.Name, "inputs": r.Inputs, "label": r.Label, "kind": r.Kind,
		"how": "gosym replay " + path,
	}
	data, _ := json.MarshalIndent(obj, "", " ")
	os.WriteFile(path, data, 0644)
	return path
}

func writeFailureEvidence(path string, ps *PropSpec, tier string, seed int, start time.Time, why string) {
	ev := map[string]interface{}{
		"property_id": ps.ID, "tier": tier, "seed": seed, "level": "other",
		"coverage": map[string]interface{}{
			"explanation": "the check could not run: " + why, "evaluations": 1, "distinct_nontrivial": 0,
		},
		"wall_s": round3(time.Since(start).Seconds()), "violations": 0,
	}
	data, _ := json.MarshalIndent(ev, "", " ")
	os.WriteFile(path, data, 0644)
}

func (e *Engine) stubs() []string {
	e.mu.Lock()
	defer e.mu.Unlock()
	var out []string
	for s := range e.stubsSeen {
		out = append(out, s)
	}
	sort.Strings(out)
	return out
}

// runGenerators runs the code generator of the current tree for generated-code properties.
func runGenerators(ps *PropSpec, tmp string) error {
	for _, g := range ps.Gen {
		outDir := filepath.Join(tmp, "gen", g.PkgDir)
		os.MkdirAll(outDir, 0755)
		yangDir := filepath.Join(verifDir, "gen", "yang")
		if g.YangDir != "" {
			yangDir = filepath.Join(verifDir, "gen", g.YangDir)
		}
		var yangs []string
		for _, y := range g.Yang {
			yangs = append(yangs, filepath.Join(yangDir, y))
		}
		var args []string
		switch g.Kind {
		case "", "go":
			args = append([]string{"run", "./generator", "-path=" + yangDir,
				"-output_file=" + filepath.Join(outDir, "zz_verif_gen.go"), "-package_name=" + g.Package}, g.Args...)
		case "gopath": // GoStructs plus path structs in one package
			args = append([]string{"run", "./generator", "-path=" + yangDir,
				"-output_file=" + filepath.Join(outDir, "zz_verif_gen.go"), "-package_name=" + g.Package,
				"-generate_path_structs", "-path_structs_output_file=" + filepath.Join(outDir, "zz_verif_gen_path.go")}, g.Args...)
		default:
			return fmt.Errorf("unknown generator kind %q", g.Kind)
		}
		args = append(args, yangs...)
		cmd := exec.Command("go", args...)
		cmd.Dir = repoDir
		cmd.Env = goEnv()
		out, err := cmd.CombinedOutput()
		if err != nil {
			return fmt.Errorf("generator failed: %v\n%s", err, lastLines(string(out), 10))
		}
	}
	return nil
}
