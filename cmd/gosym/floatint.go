package main

func SLt(a, b *Term) *Term { return Cmp(OSLt, a, b) }
func SLe(a, b *Term) *Term { return Cmp(OSLe, a, b) }
