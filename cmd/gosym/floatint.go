package main

import (
	"go/types"

	"golang.org/x/tools/go/ssa"
)

func SLt(a, b *Term) *Term { return Cmp(OSLt, a, b) }
func SLe(a, b *Term) *Term { return Cmp(OSLe, a, b) }

// isNilFunc reports whether a func-typed value is nil.
func isNilFunc(v value) bool {
	switch f := v.(type) {
	case nil:
		return true
	case *ssa.Function:
		return f == nil
	case *closure:
		return f == nil
	case *nativeFunc:
		return f == nil
	case *boundFn:
		return f == nil
	}
	return false
}

// hasFmtMethod reports whether values of type t carry a method that package fmt
// consults when formatting (Formatter, Stringer, error, GoStringer).
func hasFmtMethod(t types.Type) bool {
	ms := types.NewMethodSet(t)
	for i := 0; i < ms.Len(); i++ {
		switch ms.At(i).Obj().Name() {
		case "Format", "String", "Error", "GoString":
			return true
		}
	}
	return false
}
