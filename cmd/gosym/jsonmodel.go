package main

// Types-driven model of encoding/json.Unmarshal for *concrete* input bytes (used to
// load the schema that generated code embeds, and for harness fixtures). The JSON text
// is parsed natively and decoded into engine values following the target go/types
// type with encoding/json's rules (field tags, case-insensitive names, omitted fields
// keep their zero value). Types with custom UnmarshalJSON/UnmarshalText are unsupported.

import (
	"bytes"
	"compress/gzip"
	"encoding/base64"
	"encoding/json"
	"fmt"
	"go/types"
	"io"
	"reflect"
	"strconv"
	"strings"
)

func (p *Path) jsonDecode(j interface{}, t types.Type) value {
	if j == nil {
		return zero(t)
	}
	if n, ok := types.Unalias(t).(*types.Named); ok {
		for _, mname := range []string{"UnmarshalJSON", "UnmarshalText"} {
			if obj, _, _ := types.LookupFieldOrMethod(types.NewPointer(n), true, n.Obj().Pkg(), mname); obj != nil {
				if _, isFn := obj.(*types.Func); isFn {
					panic(unsupported{"json decode into type with custom " + mname + ": " + n.String()})
				}
			}
		}
	}
	switch u := t.Underlying().(type) {
	case *types.Pointer:
		cell := p.jsonDecode(j, u.Elem())
		return &cell
	case *types.Struct:
		obj, ok := j.(map[string]interface{})
		if !ok {
			panic(unsupported{fmt.Sprintf("json: cannot decode %T into struct %s", j, t)})
		}
		st := zero(t).(structure)
		for i := 0; i < u.NumFields(); i++ {
			f := u.Field(i)
			if !f.Exported() {
				continue
			}
			name := f.Name()
			tag := reflect.StructTag(u.Tag(i)).Get("json")
			if tag == "-" {
				continue
			}
			if tn := strings.Split(tag, ",")[0]; tn != "" {
				name = tn
			}
			var jv interface{}
			found := false
			if v, ok := obj[name]; ok {
				jv, found = v, true
			} else {
				for k, v := range obj {
					if strings.EqualFold(k, name) {
						jv, found = v, true
						break
					}
				}
			}
			if found {
				st[i] = p.jsonDecode(jv, f.Type())
			}
		}
		return st
	case *types.Map:
		obj, ok := j.(map[string]interface{})
		if !ok {
			panic(unsupported{fmt.Sprintf("json: cannot decode %T into map %s", j, t)})
		}
		m := newMap(u.Key())
		keys := make([]string, 0, len(obj))
		for k := range obj {
			keys = append(keys, k)
		}
		sortStrings(keys)
		for _, k := range keys {
			var kv value
			kb, isBasic := u.Key().Underlying().(*types.Basic)
			switch {
			case isBasic && kb.Info()&types.IsString != 0:
				kv = k
			case isBasic && kb.Info()&types.IsInteger != 0:
				s, _ := basicSort(kb)
				if kb.Info()&types.IsUnsigned != 0 {
					n, _ := strconv.ParseUint(k, 10, 64)
					kv = BV(s.W, n)
				} else {
					n, _ := strconv.ParseInt(k, 10, 64)
					kv = BV(s.W, uint64(n))
				}
			default:
				panic(unsupported{"json: map key type " + u.Key().String()})
			}
			m.insert(p, kv, p.jsonDecode(obj[k], u.Elem()))
		}
		return m
	case *types.Slice:
		if eb, ok := u.Elem().Underlying().(*types.Basic); ok && eb.Kind() == types.Uint8 {
			s, ok := j.(string)
			if !ok {
				panic(unsupported{"json: []byte from non-string"})
			}
			b, err := base64.StdEncoding.DecodeString(s)
			if err != nil {
				panic(unsupported{"json: bad base64"})
			}
			return sliceOfBytes(b)
		}
		arr, ok := j.([]interface{})
		if !ok {
			panic(unsupported{fmt.Sprintf("json: cannot decode %T into slice %s", j, t)})
		}
		out := make([]value, len(arr))
		for i, e := range arr {
			out[i] = p.jsonDecode(e, u.Elem())
		}
		return out
	case *types.Array:
		arr, _ := j.([]interface{})
		out := zero(t).(array)
		for i := range out {
			if i < len(arr) {
				out[i] = p.jsonDecode(arr[i], u.Elem())
			}
		}
		return out
	case *types.Interface:
		if u.NumMethods() != 0 {
			panic(unsupported{"json: decode into non-empty interface " + t.String()})
		}
		return p.jsonGeneric(j)
	case *types.Basic:
		s, isNum := basicSort(u)
		switch x := j.(type) {
		case string:
			if u.Info()&types.IsString != 0 {
				return x
			}
		case bool:
			if u.Kind() == types.Bool {
				return Bool(x)
			}
		case json.Number:
			if !isNum {
				break
			}
			switch {
			case u.Info()&types.IsFloat != 0:
				f, _ := x.Float64()
				return fpConst(s.W, f)
			case u.Info()&types.IsUnsigned != 0:
				n, err := strconv.ParseUint(string(x), 10, 64)
				if err != nil {
					f, _ := x.Float64()
					n = uint64(f)
				}
				return BV(s.W, n)
			case u.Info()&types.IsInteger != 0:
				n, err := strconv.ParseInt(string(x), 10, 64)
				if err != nil {
					f, _ := x.Float64()
					n = int64(f)
				}
				return BV(s.W, uint64(n))
			}
		}
		panic(unsupported{fmt.Sprintf("json: cannot decode %T (%v) into %s", j, j, t)})
	}
	panic(unsupported{"json: decode into " + t.String()})
}

// jsonGeneric decodes into interface{}: float64, string, bool, []interface{}, map[string]interface{}.
func (p *Path) jsonGeneric(j interface{}) value {
	anyT := types.NewInterfaceType(nil, nil)
	switch x := j.(type) {
	case nil:
		return iface{}
	case string:
		return iface{t: types.Typ[types.String], v: x}
	case bool:
		return iface{t: types.Typ[types.Bool], v: Bool(x)}
	case json.Number:
		f, _ := x.Float64()
		return iface{t: types.Typ[types.Float64], v: FP64(f)}
	case []interface{}:
		out := make([]value, len(x))
		for i, e := range x {
			out[i] = p.jsonGeneric(e)
		}
		return iface{t: types.NewSlice(anyT), v: out}
	case map[string]interface{}:
		m := newMap(types.Typ[types.String])
		keys := make([]string, 0, len(x))
		for k := range x {
			keys = append(keys, k)
		}
		sortStrings(keys)
		for _, k := range keys {
			m.insert(p, k, p.jsonGeneric(x[k]))
		}
		return iface{t: types.NewMap(types.Typ[types.String], anyT), v: m}
	}
	panic(unsupported{fmt.Sprintf("json generic %T", j)})
}

func sortStrings(s []string) {
	for i := 1; i < len(s); i++ {
		for j := i; j > 0 && s[j] < s[j-1]; j-- {
			s[j], s[j-1] = s[j-1], s[j]
		}
	}
}

func parseJSONText(b []byte) (interface{}, error) {
	dec := json.NewDecoder(bytes.NewReader(b))
	dec.UseNumber()
	var v interface{}
	if err := dec.Decode(&v); err != nil {
		return nil, err
	}
	return v, nil
}

func addJSON(e *Engine, m map[string]intrinsic) {
	// json.Marshal / MarshalIndent: the byte-level JSON text is outside every claim; an
	// opaque placeholder is returned (callers under test only pass it on).
	// When the marshalled value is a JSON-like tree (string-keyed maps, slices, scalars)
	// the placeholder remembers the tree as encoding/json would decode it again
	// (numbers as float64, ...), so that a later json.Unmarshal of *these very bytes*
	// into an interface{} yields it (Marshal followed by Unmarshal, as gnmidiff does).
	opaqueJSON := func(p *Path, fr *frame, args []value) value {
		p.eng.noteStub("encoding/json.Marshal (opaque placeholder text; remembers the decoded tree for a later Unmarshal of the same bytes)")
		out := sliceOfBytes([]byte(`"<json text not modelled>"`))
		if p.jsonBlobs == nil {
			p.jsonBlobs = map[*value]value{}
		}
		p.jsonBlobs[&out[0]] = bad{} // decoding these bytes is unsupported unless the tree is known
		func() {
			defer func() {
				if r := recover(); r != nil {
					if _, ok := r.(unsupported); !ok {
						panic(r)
					}
				}
			}()
			p.jsonBlobs[&out[0]] = p.normalizeJSON(args[0])
		}()
		return tupleOf(out, iface{})
	}
	m["encoding/json.Marshal"] = opaqueJSON
	m["encoding/json.MarshalIndent"] = opaqueJSON
	m["encoding/json.Unmarshal"] = func(p *Path, fr *frame, args []value) value {
		if bs, isSlice := args[0].([]value); isSlice && len(bs) > 0 && p.jsonBlobs != nil {
			if tree, isBlob := p.jsonBlobs[&bs[0]]; isBlob {
				if _, poisoned := tree.(bad); poisoned {
					panic(unsupported{"json.Unmarshal of bytes produced by json.Marshal of a value the JSON model cannot normalise"})
				}
				it := args[1].(iface)
				pt, isPtr := it.t.Underlying().(*types.Pointer)
				ptr, _ := it.v.(*value)
				if !isPtr || ptr == nil {
					return p.mkError("json: Unmarshal(non-pointer or nil)")
				}
				if ifc, ok := pt.Elem().Underlying().(*types.Interface); !ok || ifc.NumMethods() != 0 {
					panic(unsupported{"json.Unmarshal of marshalled placeholder bytes into " + pt.Elem().String()})
				}
				store(ptr, deepClone(tree, map[interface{}]value{}))
				return iface{}
			}
		}
		data, ok := concreteBytes(args[0])
		if !ok {
			panic(unsupported{"encoding/json.Unmarshal on symbolic bytes"})
		}
		it := args[1].(iface)
		pt, isPtr := it.t.Underlying().(*types.Pointer)
		ptr, _ := it.v.(*value)
		if !isPtr || ptr == nil {
			return p.mkError("json: Unmarshal(non-pointer or nil)")
		}
		j, err := parseJSONText(data)
		if err != nil {
			return p.mkError("json: " + err.Error())
		}
		p.eng.noteStub("encoding/json.Unmarshal (types-driven model, concrete input)")
		// json.Unmarshal into a non-nil pointer-to-pointer reuses the pointee
		if inner, ok := pt.Elem().Underlying().(*types.Pointer); ok {
			cell := p.jsonDecode(j, inner.Elem())
			store(ptr, &cell)
			return iface{}
		}
		store(ptr, p.jsonDecode(j, pt.Elem()))
		return iface{}
	}
	// ygot.GzipToSchema: gunzip natively, decode the root yang.Entry with the model
	// above, then run ygot's own rebuildSchemaMap from its SSA.
	m["github.com/openconfig/ygot/ygot.GzipToSchema"] = func(p *Path, fr *frame, args []value) value {
		data, ok := concreteBytes(args[0])
		if !ok {
			panic(unsupported{"GzipToSchema on symbolic bytes"})
		}
		zr, err := gzip.NewReader(bytes.NewReader(data))
		if err != nil {
			return tupleOf((*Map)(nil), p.mkError(err.Error()))
		}
		raw, err := io.ReadAll(zr)
		if err != nil {
			return tupleOf((*Map)(nil), p.mkError(err.Error()))
		}
		j, err := parseJSONText(raw)
		if err != nil {
			return tupleOf((*Map)(nil), p.mkError(err.Error()))
		}
		yangPkg := e.pkgs["github.com/openconfig/goyang/pkg/yang"]
		ygotPkg := e.pkgs["github.com/openconfig/ygot/ygot"]
		if yangPkg == nil || ygotPkg == nil {
			panic(unsupported{"GzipToSchema: packages not loaded"})
		}
		entryT := yangPkg.Type("Entry").Type()
		root := p.jsonDecode(j, entryT)
		rootPtr := &root
		schema := newMap(types.Typ[types.String])
		rb := ygotPkg.Func("rebuildSchemaMap")
		p.callSSA(fr, 0, rb, []value{rootPtr, (*value)(nil), schema}, nil)
		p.eng.noteStub("ygot.GzipToSchema (native gunzip + types-driven JSON decode of the embedded schema)")
		return tupleOf(schema, iface{})
	}
}
