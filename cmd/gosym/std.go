package main

// Models of std / third-party functions that cannot be interpreted from SSA
// (assembly, unsafe, runtime) or that are cheaper to evaluate natively when all
// arguments are concrete. Every entry here is part of the trusted base and is
// reported in the evidence under stubs_used.

import (
	"fmt"
	"go/types"
	"math"
	"strconv"
	"strings"
	"unicode"
	"unicode/utf8"
)

func tupleOf(vs ...value) value { return tuple(vs) }

func termOfInt(n int) *Term { return BV(64, uint64(int64(n))) }

func allConcrete(args []value) bool {
	for _, a := range args {
		switch x := a.(type) {
		case *Term:
			if !x.IsConst() {
				return false
			}
		case *SymStr:
			return false
		case string:
		default:
			return false
		}
	}
	return true
}

func bytesOfSlice(v value) ([]*Term, bool) {
	s, ok := v.([]value)
	if !ok {
		return nil, false
	}
	out := make([]*Term, len(s))
	for i, e := range s {
		t, ok := e.(*Term)
		if !ok {
			return nil, false
		}
		out[i] = t
	}
	return out, true
}

func concreteBytes(v value) ([]byte, bool) {
	ts, ok := bytesOfSlice(v)
	if !ok {
		return nil, false
	}
	out := make([]byte, len(ts))
	for i, t := range ts {
		if !t.IsConst() {
			return nil, false
		}
		out[i] = byte(t.c)
	}
	return out, true
}

func sliceOfBytes(b []byte) []value {
	out := make([]value, len(b))
	for i, x := range b {
		out[i] = byteConst(x)
	}
	return out
}

func sliceOfStrings(ss []string) []value {
	out := make([]value, len(ss))
	for i, s := range ss {
		out[i] = s
	}
	return out
}

// indexSym returns the index of the first occurrence of sep in s, forking on match positions.
func (p *Path) indexSym(s, sep []*Term) int {
	n, m := len(s), len(sep)
	if m == 0 {
		return 0
	}
	for i := 0; i+m <= n; i++ {
		c := termTrue
		for j := 0; j < m; j++ {
			c = And(c, Eq(s[i+j], sep[j]))
		}
		if p.decide(c, "substring match") {
			return i
		}
	}
	return -1
}

func (p *Path) lastIndexSym(s, sep []*Term) int {
	n, m := len(s), len(sep)
	if m == 0 {
		return n
	}
	for i := n - m; i >= 0; i-- {
		c := termTrue
		for j := 0; j < m; j++ {
			c = And(c, Eq(s[i+j], sep[j]))
		}
		if p.decide(c, "substring match") {
			return i
		}
	}
	return -1
}

func hasPrefixTerm(s, pre []*Term) *Term {
	if len(pre) > len(s) {
		return termFalse
	}
	c := termTrue
	for i := range pre {
		c = And(c, Eq(s[i], pre[i]))
	}
	return c
}

func hasSuffixTerm(s, suf []*Term) *Term {
	if len(suf) > len(s) {
		return termFalse
	}
	off := len(s) - len(suf)
	c := termTrue
	for i := range suf {
		c = And(c, Eq(s[off+i], suf[i]))
	}
	return c
}

func (p *Path) splitSym(s, sep []*Term, n int) []value {
	if len(sep) == 0 {
		panic(unsupported{"strings.Split with empty separator on symbolic string"})
	}
	var out []value
	for n < 0 || len(out) < n-1 {
		i := p.indexSym(s, sep)
		if i < 0 {
			break
		}
		out = append(out, mkStr(s[:i:i]))
		s = s[i+len(sep):]
	}
	out = append(out, mkStr(s))
	return out
}

func (p *Path) replaceSym(s, old, new []*Term, n int) value {
	if len(old) == 0 {
		panic(unsupported{"strings.Replace with empty old on symbolic string"})
	}
	var out []*Term
	for n != 0 {
		i := p.indexSym(s, old)
		if i < 0 {
			break
		}
		out = append(out, s[:i]...)
		out = append(out, new...)
		s = s[i+len(old):]
		n--
	}
	out = append(out, s...)
	return mkStr(out)
}

func boolTerm(b bool) *Term { return Bool(b) }

func stdIntrinsics(e *Engine) map[string]intrinsic {
	m := map[string]intrinsic{}
	noop := func(p *Path, fr *frame, args []value) value { return nil }
	for _, n := range []string{
		"(*sync.Mutex).Lock", "(*sync.Mutex).Unlock", "(*sync.RWMutex).Lock", "(*sync.RWMutex).Unlock",
		"(*sync.RWMutex).RLock", "(*sync.RWMutex).RUnlock", "runtime.KeepAlive", "runtime.GC",
		"runtime.SetFinalizer", "(*sync.WaitGroup).Add", "(*sync.WaitGroup).Done", "(*sync.WaitGroup).Wait",
		"internal/race.Acquire", "internal/race.Release", "internal/race.ReleaseMerge", "internal/race.Disable", "internal/race.Enable",
		"internal/race.Read", "internal/race.Write", "internal/race.ReadRange", "internal/race.WriteRange",
	} {
		m[n] = noop
	}
	m["(*sync.Once).Do"] = func(p *Path, fr *frame, args []value) value {
		o := args[0].(*value)
		st := (*o).(structure)
		// field 0 is done (atomic.Uint32 / uint32 depending on version): use a marker in our own table
		if p.onceDone == nil {
			p.onceDone = map[*value]bool{}
		}
		_ = st
		if !p.onceDone[o] {
			p.onceDone[o] = true
			p.call(fr, 0, args[1], nil)
		}
		return nil
	}
	// sync.Pool (single goroutine): Get always allocates through New, Put drops the value
	m["(*sync.Pool).Get"] = func(p *Path, fr *frame, args []value) value {
		st := (*args[0].(*value)).(structure)
		newFn := st[len(st)-1] // New is the last field
		if isNilFunc(newFn) {
			return iface{}
		}
		return p.call(fr, 0, newFn, nil)
	}
	m["(*sync.Pool).Put"] = func(p *Path, fr *frame, args []value) value { return nil }
	m["internal/abi.NoEscape"] =func(p *Path, fr *frame, args []value) value { return args[0] }
	m["internal/abi.Escape"] = func(p *Path, fr *frame, args []value) value { return args[0] }
	m["internal/race.Enabled"] = func(p *Path, fr *frame, args []value) value { return termFalse }

	// ---- internal/bytealg
	m["internal/bytealg.IndexByteString"] = func(p *Path, fr *frame, args []value) value {
		return termOfInt(p.indexSym(strBytes(args[0]), []*Term{args[1].(*Term)}))
	}
	m["internal/bytealg.IndexByte"] = func(p *Path, fr *frame, args []value) value {
		bs, _ := bytesOfSlice(args[0])
		return termOfInt(p.indexSym(bs, []*Term{args[1].(*Term)}))
	}
	m["internal/bytealg.LastIndexByteString"] = func(p *Path, fr *frame, args []value) value {
		return termOfInt(p.lastIndexSym(strBytes(args[0]), []*Term{args[1].(*Term)}))
	}
	m["internal/bytealg.IndexString"] = func(p *Path, fr *frame, args []value) value {
		return termOfInt(p.indexSym(strBytes(args[0]), strBytes(args[1])))
	}
	m["internal/bytealg.CountString"] = func(p *Path, fr *frame, args []value) value {
		n := 0
		for _, b := range strBytes(args[0]) {
			if p.decide(Eq(b, args[1].(*Term)), "count byte") {
				n++
			}
		}
		return termOfInt(n)
	}
	m["internal/bytealg.Count"] = func(p *Path, fr *frame, args []value) value {
		bs, _ := bytesOfSlice(args[0])
		n := 0
		for _, b := range bs {
			if p.decide(Eq(b, args[1].(*Term)), "count byte") {
				n++
			}
		}
		return termOfInt(n)
	}
	m["internal/bytealg.Equal"] = func(p *Path, fr *frame, args []value) value {
		a, _ := bytesOfSlice(args[0])
		b, _ := bytesOfSlice(args[1])
		return strEq(mkStr(a), mkStr(b))
	}
	m["bytes.Equal"] = m["internal/bytealg.Equal"]
	m["internal/bytealg.MakeNoZero"] = func(p *Path, fr *frame, args []value) value {
		n := mustInt(args[0], "MakeNoZero len")
		s := make([]value, n)
		for i := range s {
			s[i] = byteConst(0)
		}
		return s
	}
	m["internal/stringslite.Index"] = m["internal/bytealg.IndexString"]
	m["internal/stringslite.IndexByte"] = m["internal/bytealg.IndexByteString"]

	// ---- strings: exact models over byte-term vectors (native when concrete)
	m["strings.Index"] = func(p *Path, fr *frame, args []value) value {
		if a, ok := args[0].(string); ok {
			if b, ok := args[1].(string); ok {
				return termOfInt(strings.Index(a, b))
			}
		}
		return termOfInt(p.indexSym(strBytes(args[0]), strBytes(args[1])))
	}
	m["strings.LastIndex"] = func(p *Path, fr *frame, args []value) value {
		if a, ok := args[0].(string); ok {
			if b, ok := args[1].(string); ok {
				return termOfInt(strings.LastIndex(a, b))
			}
		}
		return termOfInt(p.lastIndexSym(strBytes(args[0]), strBytes(args[1])))
	}
	m["strings.IndexByte"] = func(p *Path, fr *frame, args []value) value {
		return termOfInt(p.indexSym(strBytes(args[0]), []*Term{args[1].(*Term)}))
	}
	m["strings.LastIndexByte"] = func(p *Path, fr *frame, args []value) value {
		return termOfInt(p.lastIndexSym(strBytes(args[0]), []*Term{args[1].(*Term)}))
	}
	m["strings.Contains"] = func(p *Path, fr *frame, args []value) value {
		if a, ok := args[0].(string); ok {
			if b, ok := args[1].(string); ok {
				return Bool(strings.Contains(a, b))
			}
		}
		return Bool(p.indexSym(strBytes(args[0]), strBytes(args[1])) >= 0)
	}
	m["strings.HasPrefix"] = func(p *Path, fr *frame, args []value) value {
		return hasPrefixTerm(strBytes(args[0]), strBytes(args[1]))
	}
	m["strings.HasSuffix"] = func(p *Path, fr *frame, args []value) value {
		return hasSuffixTerm(strBytes(args[0]), strBytes(args[1]))
	}
	m["strings.TrimPrefix"] = func(p *Path, fr *frame, args []value) value {
		s, pre := strBytes(args[0]), strBytes(args[1])
		if p.decide(hasPrefixTerm(s, pre), "TrimPrefix") {
			return mkStr(s[len(pre):])
		}
		return args[0]
	}
	m["strings.TrimSuffix"] = func(p *Path, fr *frame, args []value) value {
		s, suf := strBytes(args[0]), strBytes(args[1])
		if p.decide(hasSuffixTerm(s, suf), "TrimSuffix") {
			return mkStr(s[:len(s)-len(suf)])
		}
		return args[0]
	}
	m["strings.Split"] = func(p *Path, fr *frame, args []value) value {
		if a, ok := args[0].(string); ok {
			if b, ok := args[1].(string); ok {
				return sliceOfStrings(strings.Split(a, b))
			}
		}
		return p.splitSym(strBytes(args[0]), strBytes(args[1]), -1)
	}
	m["strings.SplitN"] = func(p *Path, fr *frame, args []value) value {
		n := int(mustInt(args[2], "SplitN n"))
		if a, ok := args[0].(string); ok {
			if b, ok := args[1].(string); ok {
				r := strings.SplitN(a, b, n)
				if r == nil {
					return []value(nil)
				}
				return sliceOfStrings(r)
			}
		}
		if n == 0 {
			return []value(nil)
		}
		return p.splitSym(strBytes(args[0]), strBytes(args[1]), n)
	}
	m["strings.Join"] = func(p *Path, fr *frame, args []value) value {
		elems := args[0].([]value)
		var r value = ""
		for i, e := range elems {
			if i > 0 {
				r = strConcat(r, args[1])
			}
			r = strConcat(r, e)
		}
		return r
	}
	m["strings.Replace"] = func(p *Path, fr *frame, args []value) value {
		n := int(mustInt(args[3], "Replace n"))
		if allConcrete(args[:3]) {
			return strings.Replace(args[0].(string), args[1].(string), args[2].(string), n)
		}
		return p.replaceSym(strBytes(args[0]), strBytes(args[1]), strBytes(args[2]), n)
	}
	m["strings.ReplaceAll"] = func(p *Path, fr *frame, args []value) value {
		if allConcrete(args[:3]) {
			return strings.ReplaceAll(args[0].(string), args[1].(string), args[2].(string))
		}
		return p.replaceSym(strBytes(args[0]), strBytes(args[1]), strBytes(args[2]), -1)
	}
	m["strings.Count"] = func(p *Path, fr *frame, args []value) value {
		if allConcrete(args[:2]) {
			return termOfInt(strings.Count(args[0].(string), args[1].(string)))
		}
		s, sep := strBytes(args[0]), strBytes(args[1])
		if len(sep) == 0 {
			panic(unsupported{"strings.Count with empty sep on symbolic string"})
		}
		n := 0
		for {
			i := p.indexSym(s, sep)
			if i < 0 {
				break
			}
			n++
			s = s[i+len(sep):]
		}
		return termOfInt(n)
	}
	m["strings.Repeat"] = func(p *Path, fr *frame, args []value) value {
		n := int(mustInt(args[1], "Repeat count"))
		var r value = ""
		for i := 0; i < n; i++ {
			r = strConcat(r, args[0])
		}
		return r
	}
	m["strings.EqualFold"] = func(p *Path, fr *frame, args []value) value {
		if allConcrete(args[:2]) {
			return Bool(strings.EqualFold(args[0].(string), args[1].(string)))
		}
		panic(unsupported{"strings.EqualFold on symbolic string"})
	}
	m["strings.Compare"] = func(p *Path, fr *frame, args []value) value {
		lt := strLess(args[0], args[1])
		eq := strEq(args[0], args[1])
		return Ite(eq, BV(64, 0), Ite(lt, BV(64, ^uint64(0)), BV(64, 1)))
	}
	concStr1 := func(name string, f func(string) string) {
		m[name] = func(p *Path, fr *frame, args []value) value {
			if s, ok := args[0].(string); ok {
				return f(s)
			}
			fn := e.funcByName(name)
			if fn == nil || fn.Blocks == nil {
				panic(unsupported{name + " on symbolic string"})
			}
			return p.callSSABody(fr, fn, args)
		}
	}
	concStr1("strings.ToLower", strings.ToLower)
	concStr1("strings.ToUpper", strings.ToUpper)
	concStr1("strings.TrimSpace", strings.TrimSpace)
	concStr1("strings.Title", strings.Title)
	m["strings.Fields"] = func(p *Path, fr *frame, args []value) value {
		if s, ok := args[0].(string); ok {
			return sliceOfStrings(strings.Fields(s))
		}
		panic(unsupported{"strings.Fields on symbolic string"})
	}
	m["strings.Trim"] = func(p *Path, fr *frame, args []value) value {
		if allConcrete(args[:2]) {
			return strings.Trim(args[0].(string), args[1].(string))
		}
		panic(unsupported{"strings.Trim on symbolic string"})
	}
	m["strings.TrimLeft"] = func(p *Path, fr *frame, args []value) value {
		if allConcrete(args[:2]) {
			return strings.TrimLeft(args[0].(string), args[1].(string))
		}
		panic(unsupported{"strings.TrimLeft on symbolic string"})
	}
	m["strings.TrimRight"] = func(p *Path, fr *frame, args []value) value {
		if allConcrete(args[:2]) {
			return strings.TrimRight(args[0].(string), args[1].(string))
		}
		panic(unsupported{"strings.TrimRight on symbolic string"})
	}

	// ---- strconv (native when concrete, interpreted otherwise)
	m["strconv.Itoa"] = func(p *Path, fr *frame, args []value) value {
		t := args[0].(*Term)
		if t.IsConst() {
			return strconv.Itoa(int(t.SVal()))
		}
		return p.formatIntSym(t, true)
	}
	m["strconv.FormatInt"] = func(p *Path, fr *frame, args []value) value {
		t := args[0].(*Term)
		base := int(mustInt(args[1], "FormatInt base"))
		if t.IsConst() {
			return strconv.FormatInt(t.SVal(), base)
		}
		if base != 10 {
			panic(unsupported{"FormatInt of symbolic value in base != 10"})
		}
		return p.formatIntSym(t, true)
	}
	m["strconv.FormatUint"] = func(p *Path, fr *frame, args []value) value {
		t := args[0].(*Term)
		base := int(mustInt(args[1], "FormatUint base"))
		if t.IsConst() {
			return strconv.FormatUint(t.c, base)
		}
		if base != 10 {
			panic(unsupported{"FormatUint of symbolic value in base != 10"})
		}
		return p.formatIntSym(t, false)
	}
	m["strconv.FormatBool"] = func(p *Path, fr *frame, args []value) value {
		if p.decide(args[0].(*Term), "FormatBool") {
			return "true"
		}
		return "false"
	}
	m["strconv.Quote"] = func(p *Path, fr *frame, args []value) value {
		if s, ok := args[0].(string); ok {
			return strconv.Quote(s)
		}
		return &SymStr{b: make([]*Term, strLen(args[0])+2), taint: "strconv.Quote of symbolic string"}
	}
	m["strconv.ParseFloat"] = func(p *Path, fr *frame, args []value) value {
		bits := int(mustInt(args[1], "ParseFloat bitSize"))
		if s, ok := args[0].(string); ok {
			f, err := strconv.ParseFloat(s, bits)
			if err != nil {
				return tupleOf(FP64(f), p.mkError("strconv.ParseFloat: parsing "+strconv.Quote(s)+": "+err.(*strconv.NumError).Err.Error()))
			}
			return tupleOf(FP64(f), iface{})
		}
		if ss, ok := args[0].(*SymStr); ok && ss.flt != nil {
			// shortest round-trip rendering: ParseFloat(FormatFloat(x)) == x (strconv doc)
			p.eng.noteStub("strconv round trip ParseFloat(FormatFloat(x))")
			return tupleOf(ss.flt, iface{})
		}
		// Symbolic subject: syntactic model. Acceptance is decided exactly (for inputs
		// without digit-separating underscores) by matching Go's floating-point
		// literal syntax; the parsed value is an unconstrained fresh float.
		p.eng.noteStub("strconv.ParseFloat (syntactic model, value unconstrained)")
		ro, err := p.compileRe(goFloatSyntax, false)
		if err != nil {
			panic(unsupported{"ParseFloat syntax model: " + err.Error()})
		}
		ok := p.matchTerm(ro.prog, p.runesOf(args[0]))
		if p.decide(ok, "ParseFloat syntax") {
			return tupleOf(p.symScalar("parsefloat", "float64", fpSort(64)), iface{})
		}
		return tupleOf(FP64(0), p.numError("ParseFloat", "?", strconv.ErrSyntax.Error()))
	}
	m["strconv.FormatFloat"] = func(p *Path, fr *frame, args []value) value {
		f := args[0].(*Term)
		if f.IsConst() && allConcreteTerms(args[1:]) {
			return strconv.FormatFloat(f.FVal(), byte(args[1].(*Term).c), int(args[2].(*Term).SVal()), int(args[3].(*Term).SVal()))
		}
		if allConcreteTerms(args[1:]) && args[2].(*Term).SVal() == -1 && args[3].(*Term).SVal() == 32 && (byte(args[1].(*Term).c) == 'g' || byte(args[1].(*Term).c) == 'f') {
			// bitSize 32: the shortest decimal that identifies float32(x). Read back at
			// 64-bit precision it is some value y with float32(y) == float32(x) (y is
			// left otherwise unconstrained: an over-approximation, replayed natively).
			p.eng.noteStub("strconv.FormatFloat(x, fmt, -1, 32) of a symbolic float (value y with float32(y)==float32(x))")
			y := p.symScalar("formatfloat32", "float64", fpSort(64))
			same := Or(Eq(FToF(y, 32), FToF(f, 32)), And(fpUn(OFIsNaN, y), fpUn(OFIsNaN, f)))
			if !p.decideX(same, false) {
				panic(pathEnd{status: "infeasible"})
			}
			return &SymStr{b: make([]*Term, 8), taint: "FormatFloat at 32-bit precision of a symbolic float64", flt: y, fltF: byte(args[1].(*Term).c) == 'f'}
		}
		if allConcreteTerms(args[1:]) && args[2].(*Term).SVal() == -1 && args[3].(*Term).SVal() == 64 {
			switch byte(args[1].(*Term).c) {
			case 'f':
				return &SymStr{b: make([]*Term, 8), taint: "FormatFloat 'f' of a symbolic float64", flt: f, fltF: true}
			case 'g':
				return &SymStr{b: make([]*Term, 8), taint: "FormatFloat 'g' of a symbolic float64", flt: f}
			}
		}
		panic(unsupported{"strconv.FormatFloat on symbolic float"})
	}

	// ---- unicode / utf8 fast paths for concrete args (otherwise interpreted)
	m["unicode.IsSpace"] = func(p *Path, fr *frame, args []value) value {
		r := args[0].(*Term)
		if r.IsConst() {
			return Bool(unicode.IsSpace(rune(int32(r.c))))
		}
		// Latin-1 fast path from the std source; others via table would need binary search
		c := termFalse
		for _, x := range []uint64{'\t', '\n', '\v', '\f', '\r', ' ', 0x85, 0xA0, 0x1680, 0x2028, 0x2029, 0x202f, 0x205f, 0x3000} {
			c = Or(c, Eq(r, BV(32, x)))
		}
		c = Or(c, And(Cmp(OULe, BV(32, 0x2000), r), Cmp(OULe, r, BV(32, 0x200a))))
		return c
	}
	for name, f := range map[string]func(rune) bool{
		"unicode.IsLetter": unicode.IsLetter, "unicode.IsDigit": unicode.IsDigit, "unicode.IsUpper": unicode.IsUpper,
		"unicode.IsLower": unicode.IsLower, "unicode.IsPunct": unicode.IsPunct, "unicode.IsPrint": unicode.IsPrint,
	} {
		f := f
		name := name
		m[name] = func(p *Path, fr *frame, args []value) value {
			r := args[0].(*Term)
			if r.IsConst() {
				return Bool(f(rune(int32(r.c))))
			}
			panic(unsupported{name + " on symbolic rune"})
		}
	}
	for name, f := range map[string]func(rune) rune{"unicode.ToUpper": unicode.ToUpper, "unicode.ToLower": unicode.ToLower, "unicode.ToTitle": unicode.ToTitle} {
		f := f
		name := name
		m[name] = func(p *Path, fr *frame, args []value) value {
			r := args[0].(*Term)
			if r.IsConst() {
				return BV(32, uint64(uint32(f(rune(int32(r.c))))))
			}
			panic(unsupported{name + " on symbolic rune"})
		}
	}
	m["unicode/utf8.RuneCountInString"] = func(p *Path, fr *frame, args []value) value {
		if s, ok := args[0].(string); ok {
			return termOfInt(utf8.RuneCountInString(s))
		}
		bs := strBytes(args[0])
		n := 0
		for i := 0; i < len(bs); {
			_, w := decodeRuneSym(p, bs[i:])
			i += w
			n++
		}
		return termOfInt(n)
	}
	m["unicode/utf8.ValidString"] = func(p *Path, fr *frame, args []value) value {
		if s, ok := args[0].(string); ok {
			return Bool(utf8.ValidString(s))
		}
		bs := strBytes(args[0])
		for i := 0; i < len(bs); {
			r, w := decodeRuneSym(p, bs[i:])
			if w == 1 && r.IsConst() && r.c == 0xFFFD {
				return termFalse
			}
			i += w
		}
		return termTrue
	}
	m["unicode/utf8.DecodeRuneInString"] = func(p *Path, fr *frame, args []value) value {
		if s, ok := args[0].(string); ok {
			r, w := utf8.DecodeRuneInString(s)
			return tupleOf(BV(32, uint64(uint32(r))), termOfInt(w))
		}
		bs := strBytes(args[0])
		if len(bs) == 0 {
			return tupleOf(BV(32, 0xFFFD), termOfInt(0))
		}
		r, w := decodeRuneSym(p, bs)
		return tupleOf(r, termOfInt(w))
	}

	// ---- math
	m["math.Float64bits"] = func(p *Path, fr *frame, args []value) value {
		f := args[0].(*Term)
		if f.IsConst() {
			return BV(64, f.c)
		}
		panic(unsupported{"math.Float64bits of symbolic float"})
	}
	m["math.Float64frombits"] = func(p *Path, fr *frame, args []value) value { return BitsToF(args[0].(*Term)) }
	m["math.Float32frombits"] = func(p *Path, fr *frame, args []value) value { return BitsToF(args[0].(*Term)) }
	m["math.Float32bits"] = func(p *Path, fr *frame, args []value) value {
		f := args[0].(*Term)
		if f.IsConst() {
			return BV(32, f.c)
		}
		panic(unsupported{"math.Float32bits of symbolic float"})
	}
	m["math.IsNaN"] = func(p *Path, fr *frame, args []value) value { return fpUn(OFIsNaN, args[0].(*Term)) }
	m["math.IsInf"] = func(p *Path, fr *frame, args []value) value {
		f := args[0].(*Term)
		sign := mustInt(args[1], "IsInf sign")
		inf := fpUn(OFIsInf, f)
		switch {
		case sign > 0:
			return And(inf, fpCmp(OFLt, FP64(0), f))
		case sign < 0:
			return And(inf, fpCmp(OFLt, f, FP64(0)))
		}
		return inf
	}
	m["math.Abs"] = func(p *Path, fr *frame, args []value) value { return fpUn(OFAbs, args[0].(*Term)) }
	m["math.Trunc"] = func(p *Path, fr *frame, args []value) value { return fpUn(OFRoundRTZ, args[0].(*Term)) }
	m["math.Floor"] = func(p *Path, fr *frame, args []value) value { return fpUn(OFRoundRTN, args[0].(*Term)) }
	m["math.Ceil"] = func(p *Path, fr *frame, args []value) value { return fpUn(OFRoundRTP, args[0].(*Term)) }
	m["math.RoundToEven"] = func(p *Path, fr *frame, args []value) value { return fpUn(OFRoundRNE, args[0].(*Term)) }
	m["math.Sqrt"] = func(p *Path, fr *frame, args []value) value { return fpUn(OFSqrt, args[0].(*Term)) }
	m["math.Inf"] = func(p *Path, fr *frame, args []value) value {
		return FP64(math.Inf(int(mustInt(args[0], "Inf sign"))))
	}
	m["math.NaN"] = func(p *Path, fr *frame, args []value) value { return FP64(math.NaN()) }
	m["math.Pow"] = func(p *Path, fr *frame, args []value) value {
		a, b := args[0].(*Term), args[1].(*Term)
		if a.IsConst() && b.IsConst() {
			return FP64(math.Pow(a.FVal(), b.FVal()))
		}
		panic(unsupported{"math.Pow on symbolic floats"})
	}
	m["math.Pow10"] = func(p *Path, fr *frame, args []value) value {
		return FP64(math.Pow10(int(mustInt(args[0], "Pow10 n"))))
	}
	m["math.Mod"] = func(p *Path, fr *frame, args []value) value {
		a, b := args[0].(*Term), args[1].(*Term)
		if a.IsConst() && b.IsConst() {
			return FP64(math.Mod(a.FVal(), b.FVal()))
		}
		panic(unsupported{"math.Mod on symbolic floats"})
	}
	m["math/bits.Len64"] = nil
	delete(m, "math/bits.Len64")

	addFmt(e, m)
	addRegexp(e, m)
	addStrconv(e, m)
	addJSON(e, m)
	addReflect(e, m)
	addMisc(e, m)
	return m
}

func allConcreteTerms(args []value) bool {
	for _, a := range args {
		t, ok := a.(*Term)
		if !ok || !t.IsConst() {
			return false
		}
	}
	return true
}

func (e *Engine) funcByName(full string) *ssaFunction {
	i := strings.LastIndex(full, ".")
	pkg := e.pkgs[full[:i]]
	if pkg == nil {
		return nil
	}
	return pkg.Func(full[i+1:])
}

// formatIntSym renders a symbolic integer in decimal: forks on sign and digit count.
func (p *Path) formatIntSym(t *Term, signed bool) value {
	w := t.sort.W
	neg := false
	mag := t
	if signed {
		if p.decide(Cmp(OSLt, t, BV(w, 0)), "itoa negative") {
			neg = true
			mag = BVNeg(t) // MinInt stays itself as unsigned magnitude: correct
		}
	}
	// digit count by unsigned comparison with powers of ten
	maxDigits := 20
	if w <= 8 {
		maxDigits = 3
	} else if w <= 16 {
		maxDigits = 5
	} else if w <= 32 {
		maxDigits = 10
	}
	nd := maxDigits
	pow := uint64(10)
	for d := 1; d < maxDigits; d++ {
		if pow > mask(w) {
			nd = d
			break
		}
		if p.decide(Cmp(OULt, mag, BV(w, pow)), "itoa digits") {
			nd = d
			break
		}
		if pow > math.MaxUint64/10 {
			nd = d + 1
			break
		}
		pow *= 10
	}
	digits := make([]*Term, nd)
	cur := mag
	for i := nd - 1; i >= 0; i-- {
		d := bvBin(OURem, cur, BV(w, 10))
		digits[i] = bvBin(OAdd, Extract(d, 7, 0), byteConst('0'))
		if w < 8 {
			digits[i] = bvBin(OAdd, ZExt(d, 8), byteConst('0'))
		}
		cur = bvBin(OUDiv, cur, BV(w, 10))
	}
	if neg {
		digits = append([]*Term{byteConst('-')}, digits...)
	}
	s := mkStr(digits)
	if ss, ok := s.(*SymStr); ok {
		ss.dec = &decInfo{x: t, signed: signed}
	}
	return s
}

var _ = fmt.Sprintf
var _ = types.Universe
