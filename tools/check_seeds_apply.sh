#!/bin/bash
# every stored seed patch must still apply to /repo HEAD
for d in /verif/seeded/*/; do git -C /repo apply --check $d/patch.diff 2>/dev/null || echo "DOES NOT APPLY: $d"; done
