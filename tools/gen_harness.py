#!/usr/bin/env python3
"""Instantiates harness templates for the generated-code packages."""
import os
V = os.path.dirname(os.path.dirname(os.path.abspath(__file__)))
def inst(tmpl, out, subs):
    s = open(os.path.join(V, 'harness/_templates', tmpl)).read()
    for k, v in subs.items():
        s = s.replace('@%s@' % k, v)
    os.makedirs(os.path.dirname(out), exist_ok=True)
    open(out, 'w').write(s)
inst('c15.go.tmpl', os.path.join(V, 'harness/zz_verif_gen/vgen/c15.go'), dict(
    PKG='vgen', SUF='gen', T1='V_C_Ol', M1='V_C_Ol_OrderedMap', K1='Name', PARENT='V_C', PF1='Ol',
    T2='V_C_Ol2', M2='V_C_Ol2_OrderedMap', K2='V_C_Ol2_Key', KA='Name', KB='Id', KBT='uint8', ANARGS='k.Id, k.Name'))
inst('c15.go.tmpl', os.path.join(V, 'harness/integration_tests/schemaops/ctestschema/c15.go'), dict(
    PKG='ctestschema', SUF='ctest', T1='OrderedList', M1='OrderedList_OrderedMap', K1='Key', PARENT='Device', PF1='OrderedList',
    T2='OrderedMultikeyedList', M2='OrderedMultikeyedList_OrderedMap', K2='OrderedMultikeyedList_Key', KA='Key1', KB='Key2', KBT='uint64', ANARGS='k.Key1, k.Key2'))
print("ok")
