#!/bin/bash
# run_all_seeds.sh [tier] [seed...]: run every seeded change against the check of its own
# property (plus the cross-checks listed in tools/seed_cross.txt), update seeded/RESULTS.json.
cd /verif
T=${1:-quick}; shift
seeds=${@:-$(ls seeded | grep -E '^C[0-9]+-m[0-9]+$')}
for s in $seeds; do
  own=${s%%-*}
  props="$own $(grep "^$s " tools/seed_cross.txt 2>/dev/null | cut -d' ' -f2-)"
  for p in $props; do
    out=$(tools/run_seed.sh $s $p $T 2>&1)
    rc=$(echo "$out" | sed -n 's/.*exit=\([0-9]*\).*/\1/p' | head -1)
    by=$(echo "$out" | grep '^VIOLATION' | sed -n 's/.*harness=\([A-Za-z0-9_]*\).*/\1/p' | sort -u | tr '\n' ',' | sed 's/,$//')
    what=$(echo "$out" | grep '^VIOLATION' | head -1 | sed -n 's/.*what="\(.*\)"/\1/p' | cut -c1-160)
    echo "$s $p rc=$rc by=$by"
    python3 - "$s" "$p" "$T" "$rc" "$by" "$what" <<'PY'
import json,sys
s,p,t,rc,by,what=sys.argv[1:7]
f='/verif/seeded/RESULTS.json'
d=json.load(open(f))
e=d.get(s,{})
runs=e.get('runs',{})
runs[p]={"tier":t,"detected":rc=="1","by":by,"first_violation":what}
own=s.split('-')[0]
e.update({"check":own,"tier":t,"runs":runs})
e["detected"]=any(r["detected"] for r in runs.values())
e["detected_by_own_check"]=runs.get(own,{}).get("detected",False)
e["by"]=", ".join(sorted(set(x for r in runs.values() if r["detected"] for x in r["by"].split(',') if x)))
d[s]=e
json.dump(d,open(f,'w'),indent=1,sort_keys=True)
PY
  done
done
