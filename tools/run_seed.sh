#!/bin/bash
# run_seed.sh <seed-name> <property> [tier] : apply a seeded change to /repo, run the check, undo.
set -u
S=$1; P=$2; T=${3:-quick}
cd /verif
if ! git -C /repo diff --quiet; then echo "/repo has uncommitted changes"; exit 2; fi
git -C /repo apply /verif/seeded/$S/patch.diff || { echo "patch failed"; exit 2; }
timeout 3600 bin/gosym check -p $P -tier $T > /tmp/seedrun_$S.out 2>/tmp/seedrun_$S.err; rc=$?
git -C /repo checkout -- .
echo "seed=$S property=$P tier=$T exit=$rc"
grep -E "^(VIOLATION|KNOWN-FINDING)" /tmp/seedrun_$S.out | cut -c1-300
grep -c "^INCONCLUSIVE" /tmp/seedrun_$S.out | sed 's/^/inconclusive lines: /'
tail -1 /tmp/seedrun_$S.out
# restore evidence from the unchanged tree is the caller's job (re-run the check)
