#!/bin/bash
# run_seed.sh <seed-name> <property> [tier] : apply a seeded change to /repo, run the check, undo.
# The evidence file and replays of the property are saved before and restored after,
# so that what is committed always comes from the unchanged tree.
set -u
S=$1; P=$2; T=${3:-quick}
cd /verif
if ! git -C /repo diff --quiet; then echo "/repo has uncommitted changes"; exit 2; fi
git -C /repo apply /verif/seeded/$S/patch.diff || { echo "patch failed"; exit 2; }
bk=$(mktemp -d)
[ -f evidence/$P.json ] && cp evidence/$P.json $bk/
[ -d replays/$P ] && cp -r replays/$P $bk/replays
timeout 3600 bin/gosym check -p $P -tier $T > /tmp/seedrun_$S.out 2>/tmp/seedrun_$S.err; rc=$?
git -C /repo checkout -- .
mkdir -p seeded/$S/detected_by && rm -f seeded/$S/detected_by/$P-*.json
if [ $rc -eq 1 ] && [ -d replays/$P ]; then cp replays/$P/*.json seeded/$S/detected_by/ 2>/dev/null; for f in seeded/$S/detected_by/*.json; do [ -f "$f" ] && mv "$f" "seeded/$S/detected_by/$P-$(basename $f)"; done; fi
rmdir seeded/$S/detected_by 2>/dev/null
rm -rf replays/$P; [ -d $bk/replays ] && cp -r $bk/replays replays/$P
[ -f $bk/$P.json ] && cp $bk/$P.json evidence/$P.json
rm -rf $bk
echo "seed=$S property=$P tier=$T exit=$rc"
grep -E "^(VIOLATION|KNOWN-FINDING)" /tmp/seedrun_$S.out | cut -c1-300
grep -c "^INCONCLUSIVE" /tmp/seedrun_$S.out | sed 's/^/inconclusive lines: /'
tail -1 /tmp/seedrun_$S.out
