#!/bin/bash
# run_seed.sh <seed-name> <property> [tier] : run a check against a scratch worktree of
# /repo with the seeded change applied. /repo itself and /verif/evidence are not touched:
# the engine is pointed at the worktree (VERIF_REPO) and at a scratch copy of /verif
# (VERIF_DIR) for its evidence and replay files.
set -u
S=$1; P=$2; T=${3:-quick}
W=$(mktemp -d /tmp/seedwt.XXXXXX); V=$(mktemp -d /tmp/seedvf.XXXXXX)
cleanup() { git -C /repo worktree remove --force $W/repo 2>/dev/null; rm -rf $W $V; git -C /repo worktree prune; }
trap cleanup EXIT
git -C /repo worktree add -q --detach $W/repo HEAD || { echo "worktree failed"; exit 2; }
git -C $W/repo apply /verif/seeded/$S/patch.diff || { echo "patch failed"; exit 2; }
rsync -a --exclude .git --exclude evidence --exclude replays --exclude seeded /verif/ $V/
mkdir -p $V/evidence $V/replays
VERIF_REPO=$W/repo VERIF_DIR=$V timeout 3600 /verif/bin/gosym check -p $P -tier $T > /tmp/seedrun_$S.out 2>/tmp/seedrun_$S.err; rc=$?
rm -rf /verif/seeded/$S/detected_by_$P; 
if [ $rc -eq 1 ] && [ -d $V/replays/$P ]; then mkdir -p /verif/seeded/$S/detected_by_$P && cp $V/replays/$P/*.json /verif/seeded/$S/detected_by_$P/ 2>/dev/null; fi
echo "seed=$S property=$P tier=$T exit=$rc"
grep -E "^(VIOLATION|KNOWN-FINDING)" /tmp/seedrun_$S.out | cut -c1-300
grep -c "^INCONCLUSIVE" /tmp/seedrun_$S.out | sed 's/^/inconclusive lines: /'
tail -1 /tmp/seedrun_$S.out
