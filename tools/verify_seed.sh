#!/bin/bash
# verify_seed.sh <mutation-dir> <seed-name>
# Confirms a candidate seeded change in a scratch worktree: patch applies, packages
# build, existing tests of touched packages pass with it, demo fails with it and
# passes without it. On success stores it as /verif/seeded/<seed-name>/.
set -u
export GOFLAGS=-mod=mod GOPROXY=off GOSUMDB=off GOTOOLCHAIN=local
M=$1; NAME=$2
WT=/tmp/vs/$NAME
LOG=/tmp/vs/$NAME.log
mkdir -p /tmp/vs
rm -rf $WT; git -C /repo worktree prune
git -C /repo worktree add -q --detach $WT HEAD || exit 2
cleanup() { git -C /repo worktree remove --force $WT 2>/dev/null; }
trap cleanup EXIT
cd $WT
DEMO=$(python3 -c "import json;print(json.load(open('$M/meta.json'))['demo_test'])")
DEMODIR=$(dirname $DEMO)
DEMOFILE=$(ls $M/*_test.go | head -1)
PKGS=$(grep '^+++ b/' $M/patch.diff | sed 's#+++ b/##' | xargs -n1 dirname | sort -u | sed 's#^#./#' | tr '\n' ' ')
{
echo "== seed $NAME pkgs: $PKGS demo: $DEMO"
git apply --check $M/patch.diff || { echo "RESULT patch does not apply"; exit 1; }
# demo without the change must pass
cp $DEMOFILE $DEMODIR/
RUN=$(grep -o 'func Test[A-Za-z0-9_]*' $DEMOFILE | sed 's/func //' | paste -sd'|')
DEMOTARGET=./$DEMODIR/
# gnmidiff's own tests do not build in this tree (empty exampleoc): run the demo in file mode
if [ "$DEMODIR" = "gnmidiff" ]; then DEMOTARGET=./$DEMODIR/$(basename $DEMOFILE); PKGS=$(echo $PKGS | sed 's#\./gnmidiff##'); fi
go test -count=1 -run "^($RUN)\$" $DEMOTARGET > /tmp/vs/$NAME.without 2>&1; W=$?
git apply $M/patch.diff
go build ./... 2>&1 | grep -v exampleoc | head -5
go test -count=1 -run "^($RUN)\$" $DEMOTARGET > /tmp/vs/$NAME.with 2>&1; WI=$?
rm -f $DEMODIR/$(basename $DEMOFILE)
# existing tests of touched packages and main dependents
go test -count=1 $PKGS ./ygot/ ./ytypes/ ./util/ 2>&1 | grep -v "^ok" | head -20;
T=${PIPESTATUS[0]}
echo "demo without change exit=$W ; with change exit=$WI ; existing tests exit=$T"
if [ $W -eq 0 ] && [ $WI -ne 0 ] && [ $T -eq 0 ]; then
  mkdir -p /verif/seeded/$NAME
  cp $M/patch.diff $M/meta.json $DEMOFILE /verif/seeded/$NAME/
  tail -5 /tmp/vs/$NAME.with > /verif/seeded/$NAME/demo_with_change.txt
  echo "RESULT confirmed"
else
  echo "RESULT rejected"
fi
} > $LOG 2>&1
tail -2 $LOG
