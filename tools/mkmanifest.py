#!/usr/bin/env python3
"""Regenerates /verif/MANIFEST.json from props.json + notapplicable.json."""
import json, os
V = os.path.dirname(os.path.dirname(os.path.abspath(__file__)))
props = json.load(open(os.path.join(V, 'props.json')))
na = json.load(open(os.path.join(V, 'notapplicable.json')))
allids = [json.loads(l)['id'] for l in open(os.path.join(V, 'properties.jsonl'))]
claimed = {p['id'] for p in props}
checks = []
for p in sorted(props, key=lambda p: p['id']):
    pid = p['id']
    b = p.get('bounds', {})
    checks.append({
        "property_id": pid,
        "quick_cmd": f"bin/gosym check -p {pid} -tier quick",
        "thorough_cmd": f"bin/gosym check -p {pid} -tier thorough",
        "evidence_file": f"/verif/evidence/{pid}.json",
        "replay_cmd_template": "bin/gosym replay {path}",
        "engine": "gosym",
        "technique": p.get("technique", "bounded symbolic execution of the real go/ssa code; SMT (z3/cvc5) decides every branch and assertion; native replay of counterexamples"),
        "level_claimed": {
            "category": "model_checking",
            "text": p.get("level_text", "Solver-decided within stated bounds: every feasible path of the harnesses over the real functions is explored symbolically and every assertion is an SMT query that is unsat for all inputs in the bound. Bounds: quick: %s; thorough: %s. Outside the claim: %s." % (b.get('quick', '?'), b.get('thorough', '?'), b.get('outside', '?'))),
            "design_ref": "DESIGN.md section 4 (%s)" % pid,
        },
        "level_note": "Trusted: go/ssa lowering, gosym's instruction semantics and stubs (listed in evidence stubs_used), z3/cvc5. Assumptions: " + "; ".join(p.get("assumptions", [])),
    })
nalist = []
for i in allids:
    if i in claimed:
        continue
    nalist.append({"property_id": i, "reason": na.get(i, "check not built yet (work in progress in this session)")})
m = {
    "version": 1,
    "setup_cmd": "cd /verif && GOFLAGS=-mod=mod GOPROXY=off GOSUMDB=off GOTOOLCHAIN=local go build -o bin/gosym ./cmd/gosym",
    "hooks": {
        "guard": "verif",
        "enable": "no source hooks: harness files (//go:build verif) live in /verif/harness and are injected with go/packages Overlay (symbolic run) and go test -overlay -tags=verif (native replay)",
        "baseline_off_cmd": "cd /repo && GOFLAGS=-mod=mod go test -json -vet=off -count=1 -timeout 25m ./...",
        "source_commits": [],
        "add_only": True,
    },
    "engines": [{
        "name": "gosym", "path": "/verif/cmd/gosym",
        "serves_properties": sorted(claimed),
        "kind_free_text": "path-forking bounded symbolic executor for Go over go/ssa (x/tools v0.29.0) with z3 -in / cvc5 back ends, native replay through go test -overlay",
    }],
    "checks": checks,
    "not_applicable": nalist,
    "notes": "See DESIGN.md. Every check regenerates its encoding from /repo's working tree on each run; INCONCLUSIVE lines never raise an alarm; VIOLATION lines are printed only for natively reproduced counterexamples not listed as open in known_findings.json.",
}
json.dump(m, open(os.path.join(V, 'MANIFEST.json'), 'w'), indent=1)
print("claimed", len(checks), "not_applicable", len(nalist))
