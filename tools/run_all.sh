#!/bin/bash
# run_all.sh [tier]: run every claimed check on /repo's current tree, print one line each.
cd /verif
T=${1:-quick}
for p in $(python3 -c "import json;print(' '.join(sorted(x['id'] for x in json.load(open('props.json')))))"); do
  s=$(date +%s)
  bin/gosym check -p $p -tier $T > /tmp/runall_$p.out 2>/tmp/runall_$p.err; rc=$?
  e=$(( $(date +%s) - s ))
  echo "$p rc=$rc ${e}s $(grep -c '^INCONCLUSIVE' /tmp/runall_$p.out) inconclusive; $(grep -c '^KNOWN-FINDING' /tmp/runall_$p.out) known; $(tail -1 /tmp/runall_$p.out | cut -c1-160)"
  grep -E '^(VIOLATION|INCONCLUSIVE)' /tmp/runall_$p.out | cut -c1-400
done
