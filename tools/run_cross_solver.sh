#!/bin/bash
# run_cross_solver.sh <solver> [props...]: re-run quick checks with another SMT back end
# (z3-new = z3 5.1.0, cvc5) in a scratch copy of /verif and print one line per property,
# to be compared with the default run (same paths / obligations / violations expected).
S=${1:-z3-new}; shift
V=$(mktemp -d /tmp/crossvf.XXXXXX)
rsync -a --exclude .git --exclude seeded /verif/ $V/
cd $V
props=${@:-$(python3 -c "import json;print(' '.join(sorted(x['id'] for x in json.load(open('props.json')))))")}
for p in $props; do
  GOSYM_SOLVER=$S VERIF_DIR=$V bin/gosym check -p $p -tier quick > $V/cross_$p.out 2>$V/cross_$p.err
  echo "$S $p rc=$? $(grep -c '^INCONCLUSIVE' $V/cross_$p.out) inconclusive; $(tail -1 $V/cross_$p.out | cut -c1-170)"
  grep -E '^(VIOLATION|INCONCLUSIVE)' $V/cross_$p.out | cut -c1-200 | head -5
done
rm -rf $V
